-------------------------------- MODULE Find --------------------------------
(* C17 -- discovery of the spokfile: walk from a start directory up towards a stop directory.   *)
(* Configuration: a chain of directories L0 > L1 > ... > Ld (L0 outermost) plus one unrelated    *)
(* directory U next to the chain; every directory independently holds: no entry named spokfile, *)
(* a regular file spokfile, or a directory spokfile; and optionally other entries sorting before *)
(* and/or after the name "spokfile".  Above L0 and U lies the file-system root, whose parent is  *)
(* itself.  Init ranges over every configuration, every start and every stop.                    *)
(* The walk is a state machine with one action per step of the loop:                             *)
(*    Scan (read the directory, look at every entry) -> StopTest -> Up                           *)
(* Variant "fixed": scan the whole directory, then the stop test, then the parent, giving up at  *)
(* the root.  Variant "pinned": the code as first read -- the stop test sits inside the per-entry*)
(* loop (so it is skipped in an empty directory and pre-empts a spokfile that sorts after another*)
(* entry) and there is no test for the root (named deviations).                                  *)
EXTENDS Integers, Sequences, FiniteSets, TLC

CONSTANTS Depth, Variant

U    == 0 - 1     \* the unrelated directory
Root == 0 - 2     \* the file-system root (its own parent)
Levels == 0..Depth
Dirs == Levels \cup {U}
Kinds == {"none", "file", "dir"}
NotFound == 0 - 7
NoRes    == 0 - 8

VARIABLES spok,     \* [Dirs -> Kinds]
          before,   \* [Dirs -> BOOLEAN]   an entry sorting before "spokfile"
          after,    \* [Dirs -> BOOLEAN]   an entry sorting after "spokfile"
          start, stop, cur, phase, result
vars == <<spok, before, after, start, stop, cur, phase, result>>

Parent(d) == IF d = Root THEN Root ELSE IF d = U \/ d = 0 THEN Root ELSE d - 1

\* declarative meaning: nearest directory from start up to stop (inclusive) that holds a regular file spokfile
Constrained == start \in Levels /\ stop \in Levels /\ stop <= start
Hits == {l \in stop..start : spok[l] = "file"}
Expected == IF Hits = {} THEN NotFound ELSE CHOOSE l \in Hits : \A m \in Hits : m <= l
Ancestors(d) == IF d = U THEN {U} ELSE 0..d

Init == /\ spok \in [Dirs -> Kinds] /\ before \in [Dirs -> BOOLEAN] /\ after \in [Dirs -> BOOLEAN]
        \* entries that are not named spokfile only matter where they can change the outcome:
        \* next to a spokfile entry, or in the stop directory; elsewhere they are fixed
        /\ \A d \in Dirs : after[d] => before[d] \/ spok[d] # "none"
        /\ start \in Dirs /\ stop \in Dirs
        /\ cur = start /\ phase = "scan" /\ result = NoRes

NonEmpty(d) == d = Root \/ spok[d] # "none" \/ before[d] \/ after[d]

\* read the directory `cur` and look at its entries in name order
Scan == /\ phase = "scan"
        /\ IF Variant = "fixed"
           THEN IF cur # Root /\ spok[cur] = "file"
                THEN result' = cur /\ phase' = "done"
                ELSE result' = result /\ phase' = "stoptest"
           ELSE \* pinned: for each entry { if it is the spokfile: found; else if start == stop: not found }
                IF cur # Root /\ spok[cur] = "file" /\ ~(before[cur] /\ cur = stop)
                THEN result' = cur /\ phase' = "done"
                ELSE IF cur = stop /\ NonEmpty(cur) /\ (cur = Root \/ spok[cur] # "file" \/ before[cur])
                THEN result' = NotFound /\ phase' = "done"
                ELSE result' = result /\ phase' = "up"
        /\ UNCHANGED <<spok, before, after, start, stop, cur>>

StopTest == /\ phase = "stoptest"
            /\ IF cur = stop \/ Parent(cur) = cur
               THEN result' = NotFound /\ phase' = "done"
               ELSE result' = result /\ phase' = "up"
            /\ UNCHANGED <<spok, before, after, start, stop, cur>>

Up == /\ phase = "up"
      /\ cur' = Parent(cur) /\ phase' = "scan"
      /\ UNCHANGED <<spok, before, after, start, stop, result>>

Stutter == phase = "done" /\ UNCHANGED vars
Next == Scan \/ StopTest \/ Up \/ Stutter
Spec == Init /\ [][Next]_vars /\ WF_vars(Scan \/ StopTest \/ Up)

Terminates == <>(phase = "done")
Correct == phase = "done" =>
             IF Constrained THEN result = Expected
             ELSE IF start \in Levels /\ stop \in Levels
             THEN result = NotFound \/ (result \in Ancestors(start) /\ spok[result] = "file")     \* start above stop: either
             ELSE LET H == {l \in Ancestors(start) : spok[l] = "file"} IN                           \* unrelated: nearest enclosing
                  IF H = {} THEN result = NotFound ELSE result = (CHOOSE l \in H : \A m \in H : m <= l)
NeverAboveStop == (Constrained /\ phase # "done") => cur >= stop
================================================================================
