-------------------------------- MODULE Find --------------------------------
(* C17 -- discovery of the spokfile: walk from a start directory up towards a stop directory.   *)
(* Configuration: a chain of directories L0 > L1 > ... > Ld (L0 outermost) plus one unrelated    *)
(* directory U that hangs off the root or off any level of the chain (`ua`); every directory holds: no entry named spokfile, *)
(* a regular file spokfile, or a directory spokfile; and optionally other entries sorting before *)
(* and/or after the name "spokfile".  Above L0 and U lies the file-system root, whose parent is  *)
(* itself.  Init ranges over every configuration, every start and every stop.                    *)
(* The walk is a state machine with one action per step of the loop:                             *)
(*    Scan (read the directory, look at every entry) -> StopTest -> Up                           *)
(* Variant "fixed": scan the whole directory, then the stop test, then the parent, giving up at  *)
(* the root.  Variant "pinned": the code as first read -- the stop test sits inside the per-entry*)
(* loop (so it is skipped in an empty directory and pre-empts a spokfile that sorts after another*)
(* entry) and there is no test for the root (named deviations).                                  *)
(* Spellings.  start and stop are PATHS, and one directory has many spellings: "clean" (absolute *)
(* and cleaned), "slash" (a trailing separator), "dotted" (a `.` or `x/..` element inside) and   *)
(* "rel" (relative to the working directory cwd, which then lies at or above the directory).     *)
(* The property speaks about directories; the code compares strings.  Variant "fixed" begins     *)
(* with the step Abs that rewrites both paths to the clean spelling.  Variant "pinned" walks the *)
(* strings as given: the stop test succeeds only when both spellings agree, filepath.Dir turns   *)
(* "x/" into "x" (same directory, now clean), cleans a dotted path while moving up, and a        *)
(* relative path bottoms out at "." (the working directory) -- named deviations.  Variant        *)
(* "strings" is the repaired walk without the Abs step, "noabove" the walk with Abs but without   *)
(* the test that keeps it out of the directories above stop (the code between the repairs): the   *)
(* first is refuted by an unclean stop path alone, the second by a start that is not below stop.  *)
(* "fixed" also looks at no directory that lies above the stop directory, wherever it started.    *)
EXTENDS Integers

CONSTANTS Depth, Variant,
          Spellings     \* set of <<spelling of start, spelling of stop>> pairs explored

U    == 0 - 1     \* the unrelated directory
Root == 0 - 2     \* the file-system root (its own parent)
Levels == 0..Depth
Dirs == Levels \cup {U}
Kinds == {"none", "file", "dir"}
NotFound == 0 - 7
NoRes    == 0 - 8

VARIABLES spok,     \* [Dirs -> Kinds]
          before,   \* [Dirs -> BOOLEAN]   an entry sorting before "spokfile"
          after,    \* [Dirs -> BOOLEAN]   an entry sorting after "spokfile"
          start, stop, cur, phase, result,
          curSp, stopSp,   \* spelling of the path held in `start` (the loop variable) / of `stop`
          cwd,             \* working directory (matters for the "rel" spelling only)
          ua               \* the directory U hangs off: Root or a level of the chain
vars == <<spok, before, after, start, stop, cur, phase, result, curSp, stopSp, cwd, ua>>
cfgv == <<spok, before, after, start, stop, ua>>

Parent(d) == IF d = Root THEN Root ELSE IF d = U THEN ua ELSE IF d = 0 THEN Root ELSE d - 1

\* the directories at or above d (the root apart: it never holds a spokfile here)
Ancestors(d) == IF d = U THEN {U} \cup (IF ua = Root THEN {} ELSE 0..ua) ELSE 0..d
AncestorsR(d) == Ancestors(d) \cup {Root}
\* d lies above s: it is a proper ancestor of s
Above(d, s) == d # s /\ (d = Root \/ d \in Ancestors(s))
\* position on the way up from a directory: the larger, the nearer (U sits one below the level it hangs off)
RankOf(d) == IF d = Root THEN 0 - 1 ELSE IF d = U THEN (IF ua = Root THEN 0 ELSE ua + 1) ELSE d
\* declarative meaning (C17): the nearest directory at or above start, and NOT above stop, that holds a regular file spokfile --
\* whether or not start lies below stop
Constrained == stop \in Ancestors(start)
Cands == {d \in Ancestors(start) : ~Above(d, stop)}
Hits == {d \in Cands : spok[d] = "file"}
Expected == IF Hits = {} THEN NotFound ELSE CHOOSE l \in Hits : \A m \in Hits : RankOf(m) <= RankOf(l)

Init == /\ spok \in [Dirs -> Kinds] /\ before \in [Dirs -> BOOLEAN] /\ after \in [Dirs -> BOOLEAN]
        \* entries that are not named spokfile only matter where they can change the outcome:
        \* next to a spokfile entry, or in the stop directory; elsewhere they are fixed
        /\ \A d \in Dirs : after[d] => before[d] \/ spok[d] # "none"
        /\ start \in Dirs /\ stop \in Dirs
        /\ ua \in (IF start = U \/ stop = U THEN Levels \cup {Root} ELSE {Root})      \* where U hangs only matters when U is start or stop
        /\ \E sp \in Spellings : curSp = sp[1] /\ stopSp = sp[2]
        \* a relative path names a directory at or below the working directory
        /\ cwd \in Dirs \cup {Root}
        /\ IF curSp = "rel" \/ stopSp = "rel"
           THEN /\ curSp = "rel" => cwd \in AncestorsR(start)
                /\ stopSp = "rel" => cwd \in AncestorsR(stop)
           ELSE cwd = Root
        /\ cur = start /\ result = NoRes
        /\ phase = IF Variant \in {"fixed", "noabove"} THEN "abs" ELSE "scan"

NonEmpty(d) == d = Root \/ spok[d] # "none" \/ before[d] \/ after[d]

\* fixed: filepath.Abs on both arguments -- from here on the strings are compared as directories
Abs == /\ phase = "abs"
       /\ curSp' = "clean" /\ stopSp' = "clean" /\ cwd' = Root /\ phase' = "scan"
       /\ UNCHANGED <<cfgv, cur, result>>

\* `start == stop` on the strings: the same directory in the same spelling
SameString == cur = stop /\ curSp = stopSp
\* filepath.Dir on the string held in `start`: <<directory, spelling>>
DirOf == CASE curSp = "slash"  -> <<cur, "clean">>                                   \* "x/" -> "x"
           [] curSp = "dotted" -> <<Parent(cur), "clean">>
           [] curSp = "rel"    -> IF cur = cwd THEN <<cur, "rel">> ELSE <<Parent(cur), "rel">>   \* Dir(".") = "."
           [] OTHER            -> <<Parent(cur), "clean">>
NoParent == DirOf = <<cur, curSp>>

\* read the directory `cur` and look at its entries in name order
Scan == /\ phase = "scan"
        /\ IF Variant \in {"fixed", "noabove", "strings"}
           THEN IF Variant = "fixed" /\ Above(cur, stop)          \* a directory above the stop directory is not looked into
                THEN result' = NotFound /\ phase' = "done"
                ELSE IF cur # Root /\ spok[cur] = "file"
                THEN result' = cur /\ phase' = "done"
                ELSE result' = result /\ phase' = "stoptest"
           ELSE \* pinned: for each entry { if it is the spokfile: found; else if start == stop: not found }
                IF cur # Root /\ spok[cur] = "file" /\ ~(before[cur] /\ SameString)
                THEN result' = cur /\ phase' = "done"
                ELSE IF SameString /\ NonEmpty(cur) /\ (cur = Root \/ spok[cur] # "file" \/ before[cur])
                THEN result' = NotFound /\ phase' = "done"
                ELSE result' = result /\ phase' = "up"
        /\ UNCHANGED <<cfgv, cur, curSp, stopSp, cwd>>

StopTest == /\ phase = "stoptest"
            /\ IF SameString \/ NoParent
               THEN result' = NotFound /\ phase' = "done"
               ELSE result' = result /\ phase' = "up"
            /\ UNCHANGED <<cfgv, cur, curSp, stopSp, cwd>>

Up == /\ phase = "up"
      /\ cur' = DirOf[1] /\ curSp' = DirOf[2] /\ phase' = "scan"
      /\ UNCHANGED <<cfgv, result, stopSp, cwd>>

Stutter == phase = "done" /\ UNCHANGED vars
Next == Abs \/ Scan \/ StopTest \/ Up \/ Stutter
Spec == Init /\ [][Next]_vars /\ WF_vars(Abs \/ Scan \/ StopTest \/ Up)

Terminates == <>(phase = "done")
Correct == phase = "done" => result = Expected
\* nothing above the stop directory is ever returned, wherever the walk started
NeverAboveStop == result \in Dirs => ~Above(result, stop)
\* Correct without CHOOSE (the form proved for every Depth in FindProof.tla; TLC checks that the two agree)
CorrectP == phase = "done" =>
             IF Hits = {} THEN result = NotFound ELSE result \in Hits /\ \A m \in Hits : RankOf(m) <= RankOf(result)
CorrectAgree == Correct <=> CorrectP
\* the configuration space of the registered checks
AllSpellings == {<<"clean", "clean">>, <<"slash", "clean">>, <<"clean", "slash">>, <<"slash", "slash">>, <<"dotted", "clean">>,
                 <<"clean", "dotted">>, <<"rel", "clean">>, <<"clean", "rel">>, <<"rel", "rel">>}
CleanOnly == {<<"clean", "clean">>}
================================================================================
