---------------------------- MODULE HashPool ----------------------------
(* The concurrent file hasher of hash.Concurrent.Hash as a set of communicating processes:      *)
(*   producer  : sends every list entry on the unbuffered `jobs` channel, then closes it         *)
(*   worker w  : receives an entry, opens it, skips directories, sends one result on the         *)
(*               unbuffered `results` channel; leaves when `jobs` is closed and drained          *)
(*   closer    : waits for the WaitGroup to reach zero, then closes `results`                    *)
(*   main      : collects results in arrival order until `results` is closed, then either        *)
(*               reports the first error or sorts what it collected and digests it               *)
(* One action per channel operation / critical step, so that TLC explores every interleaving.    *)
(* Entries are small integers; Kind says what opening them does.  The digest is kept abstract:   *)
(* it is the sorted sequence of the entries delivered (injective in the bag of results), so      *)
(* "same digest" in the model means "same bag of (path, content) pairs".                         *)
(* Variant = "pinned" models the code as first read (a worker that cannot open its entry         *)
(* dereferences nil and kills the process) -- the named deviation WorkerCrash; "fixed" models    *)
(* the repaired worker, which sends the error as its result.                                     *)
EXTENDS Naturals, Sequences, FiniteSets, SequencesExt, TLC, Json

CONSTANTS Entries,      \* set of entry ids (naturals)
          RegularE,     \* entries that are regular readable files
          DirE,         \* entries that are directories
          BadE,         \* entries that cannot be opened / read (missing, dangling, vanished)
          MaxLen,       \* longest list explored
          CPUs,         \* set of possible runtime.NumCPU() values
          Variant       \* "pinned" | "fixed"

ASSUME Entries = RegularE \cup DirE \cup BadE

VARIABLES list,        \* the argument: a sequence of entries
          ncpu,        \* runtime.NumCPU()
          pidx,        \* producer: index of the next entry to send (Len+1 = all sent)
          jobsClosed,
          wst,         \* worker state: [1..NW -> "idle" | "work" | "send" | "exit"]
          wfile,       \* entry held by a worker (0 = none)
          wg,          \* WaitGroup counter
          resClosed,
          acc,         \* main: results in arrival order (sequence of entries, errors included)
          mainst,      \* "collect" | "returned" | "crashed"
          result       \* [kind |-> "none" | "digest" | "error", d |-> <<...>>]

vars == <<list, ncpu, pidx, jobsClosed, wst, wfile, wg, resClosed, acc, mainst, result>>

Min2(a, b) == IF a < b THEN a ELSE b
NW == Min2(ncpu, Len(list))
W  == 1..NW
AllLists == UNION {[1..n -> Entries] : n \in 0..MaxLen}

NoResult == [kind |-> "none", d |-> <<>>]

Init == /\ list \in AllLists
        /\ ncpu \in CPUs
        /\ pidx = 1 /\ jobsClosed = FALSE
        /\ wst = [w \in 1..Min2(ncpu, Len(list)) |-> "idle"]
        /\ wfile = [w \in 1..Min2(ncpu, Len(list)) |-> 0]
        /\ wg = Min2(ncpu, Len(list))
        /\ resClosed = FALSE /\ acc = <<>> /\ mainst = "collect" /\ result = NoResult

Alive == mainst = "collect"

\* jobs <- file  /  file := <-jobs   (rendezvous: one atomic step)
Hand(w) == /\ Alive /\ pidx <= Len(list) /\ wst[w] = "idle"
           /\ wst' = [wst EXCEPT ![w] = "work"]
           /\ wfile' = [wfile EXCEPT ![w] = list[pidx]]
           /\ pidx' = pidx + 1
           /\ UNCHANGED <<list, ncpu, jobsClosed, wg, resClosed, acc, mainst, result>>

CloseJobs == /\ mainst # "crashed" /\ pidx = Len(list) + 1 /\ ~jobsClosed
             /\ jobsClosed' = TRUE
             /\ UNCHANGED <<list, ncpu, pidx, wst, wfile, wg, resClosed, acc, mainst, result>>

\* os.Stat (anything that is not a regular file is skipped like a directory) / os.Open / io.Copy
Process(w) == /\ Alive /\ wst[w] = "work"
              /\ LET e == wfile[w] IN
                 IF e \in DirE
                 THEN /\ wst' = [wst EXCEPT ![w] = "idle"] /\ wfile' = [wfile EXCEPT ![w] = 0]   \* continue
                      /\ UNCHANGED mainst
                 ELSE IF e \in BadE /\ Variant = "pinned"
                 THEN /\ mainst' = "crashed" /\ UNCHANGED <<wst, wfile>>                        \* WorkerCrash
                 ELSE /\ wst' = [wst EXCEPT ![w] = "send"] /\ UNCHANGED <<wfile, mainst>>
              /\ UNCHANGED <<list, ncpu, pidx, jobsClosed, wg, resClosed, acc, result>>

\* results <- res  /  r := <-results   (rendezvous)
Deliver(w) == /\ Alive /\ wst[w] = "send" /\ ~resClosed
              /\ acc' = Append(acc, wfile[w])
              /\ wst' = [wst EXCEPT ![w] = "idle"] /\ wfile' = [wfile EXCEPT ![w] = 0]
              /\ UNCHANGED <<list, ncpu, pidx, jobsClosed, wg, resClosed, mainst, result>>

\* range over a closed, drained jobs channel ends; deferred wg.Done()
WorkerExit(w) == /\ Alive /\ wst[w] = "idle" /\ jobsClosed /\ pidx = Len(list) + 1
                 /\ wst' = [wst EXCEPT ![w] = "exit"]
                 /\ wg' = wg - 1
                 /\ UNCHANGED <<list, ncpu, pidx, jobsClosed, wfile, resClosed, acc, mainst, result>>

CloseResults == /\ Alive /\ wg = 0 /\ ~resClosed
                /\ resClosed' = TRUE
                /\ UNCHANGED <<list, ncpu, pidx, jobsClosed, wst, wfile, wg, acc, mainst, result>>

Canon(s) == SortSeq(s, LAMBDA a, b : a < b)
HasErr(s) == \E i \in DOMAIN s : s[i] \in BadE

MainReturn == /\ Alive /\ resClosed
              /\ mainst' = "returned"
              /\ result' = IF HasErr(acc) THEN [kind |-> "error", d |-> <<>>]
                           ELSE [kind |-> "digest", d |-> Canon(acc)]
              /\ UNCHANGED <<list, ncpu, pidx, jobsClosed, wst, wfile, wg, resClosed, acc>>

Done == mainst \in {"returned", "crashed"} /\ (mainst = "returned" => jobsClosed) /\ UNCHANGED vars

Next == \/ \E w \in W : Hand(w) \/ Process(w) \/ Deliver(w) \/ WorkerExit(w)
        \/ CloseJobs \/ CloseResults \/ MainReturn \/ Done

Fairness == /\ \A w \in 1..3 : WF_vars(w \in W /\ Hand(w)) /\ WF_vars(w \in W /\ Process(w))
                              /\ WF_vars(w \in W /\ Deliver(w)) /\ WF_vars(w \in W /\ WorkerExit(w))
            /\ WF_vars(CloseJobs) /\ WF_vars(CloseResults) /\ WF_vars(MainReturn)

Spec == Init /\ [][Next]_vars /\ Fairness

--------------------------------------------------------------------------
\* what the digest must be a function of: the bag of regular entries of the list
RegOf(s) == SelectSeq(s, LAMBDA e : e \in RegularE)
ListHasBad == \E i \in DOMAIN list : list[i] \in BadE

TypeOK == /\ pidx \in 1..(Len(list) + 1) /\ wg \in 0..NW
          /\ \A w \in W : wst[w] \in {"idle", "work", "send", "exit"}

\* C04: schedule independence -- whatever the interleaving, a clean list yields the canonical digest
SchedIndep == mainst = "returned" /\ ~ListHasBad =>
                 result = [kind |-> "digest", d |-> Canon(RegOf(list))]
\* C18: an unreadable entry yields an error, never a digest; and the process never dies
ErrorIffBad == mainst = "returned" => (result.kind = "error") = ListHasBad
NeverCrashes == mainst # "crashed"
\* C18: no send on a closed channel, results closed only after every worker has left
NoSendOnClosed == ~(resClosed /\ \E w \in W : wst[w] = "send")
CloseAfterExit == resClosed => \A w \in W : wst[w] = "exit"
\* C18: nothing left behind when Hash returns
\* (the producer may still be about to close `jobs` when the list is empty: it can only finish,
\*  never block -- Quiesces says it does)
NoLeak == mainst = "returned" => /\ \A w \in W : wst[w] = "exit"
                                 /\ resClosed /\ wg = 0 /\ pidx = Len(list) + 1
Quiesces == <>[](mainst = "returned" /\ jobsClosed)
\* C18: no deadlock -- unless finished, some step is possible
NoDeadlock == mainst \in {"returned", "crashed"} \/ ENABLED
                 (\/ \E w \in W : Hand(w) \/ Process(w) \/ Deliver(w) \/ WorkerExit(w)
                  \/ CloseJobs \/ CloseResults \/ MainReturn)
\* C18: Hash returns
Returns == <>(mainst = "returned")
ReturnsOrCrashes == <>(mainst \in {"returned", "crashed"})

\* scenario export: every reachable completion order, one line per distinct terminal state
EmitOrders == mainst = "returned" =>
                 PrintT(<<"ORD", ToJson([list |-> list, ncpu |-> ncpu, order |-> acc])>>)
==========================================================================
