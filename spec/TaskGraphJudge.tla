--------------------------- MODULE TaskGraphJudge ---------------------------
(* Judges recorded real runs of SpokFile.Run over dependency-graph configurations (C03) with the *)
(* declarative vocabulary of TaskGraphDefs.                                                      *)
(*  record: [id, names: <<n>>, defs: [n |-> 0..2], deps: [n |-> <<m>>], req: <<n>>, failing: <<n>>,*)
(*           outcome: "ok" | crash | hang,                                                        *)
(*           outs: <<[kind: ok|error|panic, ran: <<n>>, reported: <<n>>, skipped: <<n>>, run]>>]  *)
EXTENDS TaskGraphDefs, TLC, Json, SequencesExt, FiniteSetsExt

Recs == ndJsonDeserialize("recs.ndjson")

DefOf(r) == {n \in SeqRange(r.names) : r.defs[n] >= 1}
DupOf(r) == {n \in SeqRange(r.names) : r.defs[n] = 2}
DOf(r)   == [n \in DefOf(r) |-> SeqRange(r.deps[n])]

Allowed(r, o) ==
  LET Df == DefOf(r)  Dp == DupOf(r)  D == DOf(r)
      clo == Closure(D, Df, r.req)
      fail == SeqRange(r.failing) \cap clo
      notSkipped(n) == n \notin SeqRange(o.skipped)
  IN
  IF ErrCond(D, Df, Dp, r.req)
  THEN o.kind = "error" /\ o.ran = <<>>                              \* reports an error and runs nothing
  ELSE IF o.kind = "error"
  THEN AnomalyOutside(D, Df, Dp, r.req) /\ o.ran = <<>>              \* only an anomaly elsewhere in the file excuses an error
  ELSE /\ o.kind = "ok"
       /\ IF fail = {}
          THEN /\ IsPermOf(o.reported, clo)                          \* every selected task exactly once, none left out
               /\ DepsFirst(D, Df, o.reported)                       \* dependencies first
               /\ o.ran = SelectSeq(o.reported, notSkipped)          \* executed = reported and not skipped, same order, once
               /\ SeqRange(o.skipped) \subseteq clo
          ELSE /\ NoDup(o.ran) /\ SeqRange(o.ran) \subseteq clo      \* with a failing command: nothing twice,
               /\ DepsFirstAmong(D, Df, o.ran)                       \* whatever still runs keeps the order
               /\ NoDup(o.reported)

Allowed_C03(r) == r.outcome = "ok" /\ \A i \in DOMAIN r.outs : Allowed(r, r.outs[i])

BadIdx == {i \in DOMAIN Recs : ~Allowed_C03(Recs[i])}
ASSUME JsonSerialize("verdict.json",
   [ Allowed_C03 |-> SetToSeq(BadIdx),
     n |-> Len(Recs),
     nErr |-> Cardinality({i \in DOMAIN Recs : ErrCond(DOf(Recs[i]), DefOf(Recs[i]), DupOf(Recs[i]), Recs[i].req)}),
     nDeep |-> Cardinality({i \in DOMAIN Recs :
                 ~ErrCond(DOf(Recs[i]), DefOf(Recs[i]), DupOf(Recs[i]), Recs[i].req)
                 /\ Cardinality(Closure(DOf(Recs[i]), DefOf(Recs[i]), Recs[i].req)) >= 3}) ])
==============================================================================
