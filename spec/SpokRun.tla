------------------------------- MODULE SpokRun -------------------------------
(* Protocol level of the run / cache family: how spok is designed to make C01 C02 C14 C10 hold. *)
(* State: the dependency files (`fs`, from SpokRunEnv), the only persistent state of spok -- the  *)
(* cache file .spok/cache.json (`disk`) -- and one invocation of `spok <tasks> [--force]` as a   *)
(* sequence of named steps, one per critical section of file.SpokFile.run:                      *)
(*    Begin -> InitCache -> Load -> for each task in run order:                                  *)
(*             HashDecide -> (Skip | Invalidate -> Exec -> Persist) -> ... -> Finish             *)
(* The environment may edit files and remove the cache between invocations, and may kill the     *)
(* invocation at every step (`Crash`), also half-way through a cache write (`CrashInDump`),      *)
(* which leaves a torn file.  The ghost history and the property clauses are those of            *)
(* SpokRunEnv: every finished or killed invocation is folded in with `Observe`, exactly as the   *)
(* recorded real invocations are in SpokRunTrace.                                                *)
(*                                                                                               *)
(* Protocol = "wal"    : the repaired code -- the stored digest of a task is cleared before its  *)
(*                       commands start, the new one written as soon as the task has succeeded;  *)
(*                       the digest is computed also under --force.                              *)
(* Protocol = "each"   : a tempting simpler design -- nothing is cleared beforehand, the digest is   *)
(*                       written after a successful task and cleared after a failed one; safe for *)
(*                       every crash-free history but not for a kill between the end of a task's  *)
(*                       commands and the write (TLC exhibits the history): documents WHY the     *)
(*                       stored digest has to be forgotten before the commands start.             *)
(* Protocol = "pinned" : the code as first read (named deviation) -- one shared update flag, one *)
(*                       write at the end, only without --force and when every task succeeded.   *)
EXTENDS SpokRunEnv, SequencesExt

CONSTANTS Protocol,     \* "wal" | "pinned"
          Crashes,      \* BOOLEAN: explore kills
          MaxHist       \* bound on recorded history length (simulation / scenario export); 0 = no history

VARIABLES disk,   \* [st |-> "none" | "ok" | "torn", map |-> [Tasks -> digest]]
          inv,    \* the running invocation, or Idle
          hist    \* history of environment actions with the model's predicted observations (scenario export)

vars == <<fs, lastOk, lastFailed, forcedT, crashed, viol, disk, inv, hist>>

EmptyD == {<<"empty", 0>>}                   \* "" in the cache file; same shape as a digest
Digest(t) == Inputs(t)                        \* ideal digest: injective in the (path, content) set (C04 discharges the real one)
HasFiles(t) == Inputs(t) # {}                 \* len(toHash) # 0: some dependency names an existing file ...
                                              \* (a missing literal dependency is a hash error, handled before)
Idle == [pc |-> "idle"]
NoMap == [t \in Tasks |-> EmptyD]

Contents == 0..(Prog.ncontents - 1)
ReqSets  == {Prog.reqsets[i] : i \in DOMAIN Prog.reqsets}
\* a failing list names tasks whose first command exits non-zero, and -- as "!T", see Prog.errpairs -- tasks whose first command
\* cannot be run at all: the runner returns an error instead of an exit status and spok stops with it
FailSets == {Prog.failsets[i] : i \in DOMAIN Prog.failsets} \cup {Prog.errfail[i] : i \in DOMAIN Prog.errfail}
ErrPairs == {Prog.errpairs[i] : i \in DOMAIN Prog.errpairs}          \* <<"!T", "T">>
ErrTasks(i) == {p[2] : p \in {q \in ErrPairs : q[1] \in SeqRange(i.failing)}}

\* run orders: every dependency-respecting permutation of the closure (the topological sort iterates a Go map)
IsTopo(o) == \A i \in DOMAIN o : \A d \in TaskDeps(o[i]) : \E j \in 1..(i - 1) : o[j] = d
Orders(req) == {o \in [1..Cardinality(Closure(req)) -> Closure(req)] :
                   /\ \A i, j \in DOMAIN o : i # j => o[i] # o[j]
                   /\ IsTopo(o)}

Init == /\ EnvInit(Prog.init)
        /\ disk = [st |-> "none", map |-> NoMap]
        /\ inv = Idle
        /\ hist = <<>>

Note(h) == hist' = IF MaxHist = 0 THEN hist ELSE Append(hist, h)
Room == MaxHist = 0 \/ Len(hist) < MaxHist

\* ---------------- environment ----------------
Edit(f, c) == /\ inv = Idle /\ Room /\ fs[f] # c
              /\ EnvEdit(f, c)
              /\ Note([act |-> "edit", f |-> f, c |-> c])
              /\ UNCHANGED <<disk, inv>>
RmCache == /\ inv = Idle /\ Room /\ disk.st # "none"
           /\ EnvRmCache
           /\ disk' = [st |-> "none", map |-> NoMap]
           /\ Note([act |-> "rmcache"])
           /\ UNCHANGED inv

\* ---------------- one invocation ----------------
Begin(req, force, failing, order) ==
  /\ inv = Idle /\ Room
  /\ inv' = [pc |-> "init", req |-> req, force |-> force, failing |-> failing, order |-> order, idx |-> 1,
             mem |-> NoMap, upd |-> TRUE, reports |-> <<>>, ran |-> <<>>]
  /\ UNCHANGED <<fs, lastOk, lastFailed, forcedT, crashed, viol, disk, hist>>

\* fold the finished (or killed) invocation into the ghost history; back to idle
End(outcome, errcls, killed, i) ==
  \* a run that returns an error (or is killed) reports nothing: the results so far are dropped
  LET rep == IF outcome = "normal" THEN i.reports ELSE <<>>
      obs == [req |-> i.req, force |-> i.force, failing |-> i.failing, reports |-> rep, ran |-> i.ran,
              outcome |-> outcome, errcls |-> errcls, killed |-> killed] IN
  /\ UNCHANGED fs /\ Observe(obs)
  /\ inv' = Idle
  /\ Note([act |-> "invoke", req |-> i.req, force |-> i.force, failing |-> i.failing, reports |-> rep,
           ran |-> i.ran, outcome |-> outcome, errcls |-> errcls, killed |-> killed])

Keep == UNCHANGED <<fs, lastOk, lastFailed, forcedT, crashed, viol, hist>>

InitCache == /\ inv.pc = "init"
             /\ disk' = IF disk.st = "none" THEN [st |-> "ok", map |-> NoMap] ELSE disk
             /\ inv' = [inv EXCEPT !.pc = "load"]
             /\ Keep
Load == /\ inv.pc = "load"
        /\ IF disk.st = "torn"
           THEN End("error", "cache", FALSE, inv) /\ UNCHANGED disk
           ELSE inv' = [inv EXCEPT !.pc = "task", !.mem = disk.map] /\ Keep /\ UNCHANGED disk

Cur == inv.order[inv.idx]
Advance(i) == [i EXCEPT !.pc = "task", !.idx = i.idx + 1]

\* hash the task's files, compare with the stored digest, decide
HashDecide ==
  /\ inv.pc = "task" /\ inv.idx <= Len(inv.order)
  /\ LET t == Cur IN
     IF MissingLit(t) /\ (Protocol = "pinned" => ~inv.force)
     THEN IF inv.force                                   \* wal: a forced run goes ahead, nothing to record
          THEN inv' = [inv EXCEPT !.pc = "invalidate"] /\ Keep /\ UNCHANGED disk
          ELSE End("error", "other", FALSE, inv) /\ UNCHANGED disk
     ELSE
     IF Protocol \in {"wal", "each"}
     THEN IF ~inv.force /\ HasFiles(t) /\ inv.mem[t] # EmptyD /\ inv.mem[t] = Digest(t)
          THEN inv' = Advance([inv EXCEPT !.reports = Append(@, [t |-> t, skipped |-> TRUE, nres |-> 0])])
               /\ Keep /\ UNCHANGED disk
          ELSE inv' = [inv EXCEPT !.pc = "invalidate"] /\ Keep /\ UNCHANGED disk
     ELSE \* pinned: AlwaysRun under force; shared update flag
          LET upd1 == inv.upd /\ (LitDeps(t) \cup {g \in GlobCand(t) : fs[g] # Absent}) # {} IN
          IF ~inv.force /\ inv.mem[t] # EmptyD /\ inv.mem[t] = Digest(t)
          THEN inv' = Advance([inv EXCEPT !.reports = Append(@, [t |-> t, skipped |-> TRUE, nres |-> 0]), !.upd = FALSE])
               /\ Keep /\ UNCHANGED disk
          ELSE inv' = [inv EXCEPT !.pc = "exec", !.upd = upd1,
                                  !.mem = IF upd1 THEN [@ EXCEPT ![t] = IF inv.force THEN {<<"DIFFERENT", 0>>} ELSE Digest(t)] ELSE @]
               /\ Keep /\ UNCHANGED disk

\* wal: forget the stored digest before the commands start (one write of the cache file)
Invalidate ==
  /\ inv.pc = "invalidate"
  /\ LET t == Cur IN
     IF inv.mem[t] # EmptyD /\ Protocol # "each"
     THEN /\ inv' = [inv EXCEPT !.pc = "exec", !.mem = [@ EXCEPT ![t] = EmptyD]]
          /\ disk' = [st |-> "ok", map |-> [inv.mem EXCEPT ![t] = EmptyD]]
     ELSE inv' = [inv EXCEPT !.pc = "exec"] /\ UNCHANGED disk
  /\ Keep

\* the task's commands run (all of them; the first one fails when the task is in `failing`)
Exec ==
  /\ inv.pc = "exec"
  /\ LET t == Cur
         ok == t \notin SeqRange(inv.failing) IN
     IF t \in ErrTasks(inv)
     THEN \* the runner cannot run the first command: Run returns the error at once, nothing more is written
          /\ End("error", "runner", FALSE, [inv EXCEPT !.ran = Append(@, [t |-> t, n |-> 1, ok |-> FALSE])])
          /\ UNCHANGED disk
     ELSE /\ inv' = [inv EXCEPT !.pc = "persist",
                             !.ran = Append(@, [t |-> t, n |-> NCmds, ok |-> ok]),
                             !.reports = Append(@, [t |-> t, skipped |-> FALSE, nres |-> NCmds])]
          /\ Keep /\ UNCHANGED disk

\* wal: record the new digest as soon as the task has succeeded (one write of the cache file)
Persist ==
  /\ inv.pc = "persist"
  /\ LET t == Cur
         ok == t \notin SeqRange(inv.failing) IN
     IF Protocol \in {"wal", "each"} /\ ok /\ HasFiles(t) /\ ~MissingLit(t)
     THEN /\ inv' = Advance([inv EXCEPT !.mem = [@ EXCEPT ![t] = Digest(t)]])
          /\ disk' = [st |-> "ok", map |-> [inv.mem EXCEPT ![t] = Digest(t)]]
     ELSE IF Protocol = "each" /\ inv.mem[t] # EmptyD                    \* failed (or nothing to record): forget the old digest now
     THEN /\ inv' = Advance([inv EXCEPT !.mem = [@ EXCEPT ![t] = EmptyD]])
          /\ disk' = [st |-> "ok", map |-> [inv.mem EXCEPT ![t] = EmptyD]]
     ELSE inv' = Advance(inv) /\ UNCHANGED disk
  /\ Keep

AllOk(i) == \A k \in DOMAIN i.ran : i.ran[k].ok
Finish ==
  /\ inv.pc = "task" /\ inv.idx > Len(inv.order)
  /\ disk' = IF Protocol = "pinned" /\ ~inv.force /\ inv.upd /\ AllOk(inv)
             THEN [st |-> "ok", map |-> inv.mem] ELSE disk
  /\ End("normal", "none", FALSE, inv)

\* kill -9 between two steps: whatever is on disk stays, the invocation is gone
Crash == /\ Crashes /\ inv # Idle
         /\ End("killed", "none", TRUE, inv)
         /\ UNCHANGED disk
\* kill -9 half-way through a write of the cache file: the file is left torn
CrashInDump ==
  /\ Crashes /\ inv # Idle
  /\ \/ inv.pc = "invalidate" /\ inv.mem[Cur] # EmptyD /\ Protocol # "each"
     \/ inv.pc = "persist" /\ Protocol \in {"wal", "each"} /\ Cur \notin SeqRange(inv.failing) /\ HasFiles(Cur) /\ ~MissingLit(Cur)
     \/ inv.pc = "init" /\ disk.st = "none"
     \/ inv.pc = "task" /\ inv.idx > Len(inv.order) /\ Protocol = "pinned" /\ ~inv.force /\ inv.upd /\ AllOk(inv)
  /\ disk' = [st |-> "torn", map |-> NoMap]
  /\ End("killed", "none", TRUE, inv)

Step == InitCache \/ Load \/ HashDecide \/ Invalidate \/ Exec \/ Persist \/ Finish

Next == \/ \E f \in Files, c \in Contents \cup {Absent} : Edit(f, c)
        \/ RmCache
        \/ \E req \in ReqSets, force \in BOOLEAN, failing \in FailSets : \E o \in Orders(req) : Begin(req, force, failing, o)
        \/ Step \/ Crash \/ CrashInDump

Spec == Init /\ [][Next]_vars

\* state identity without the exported history
View == <<fs, lastOk, lastFailed, forcedT, crashed, viol, disk, inv>>

\* ---------------- design-level invariants ----------------
TypeOK == /\ disk.st \in {"none", "ok", "torn"}
          /\ inv.pc \in {"idle", "init", "load", "task", "invalidate", "exec", "persist"}
\* the key inductive fact behind C01/C10 for the wal protocol: whatever digest the cache file holds for a task
\* is the digest of the inputs of that task's last successful run
\* (the ghost history is updated when the invocation ends; in flight, a task that has already succeeded counts)
EffLastOk(t) == IF inv # Idle /\ \E k \in DOMAIN inv.ran : inv.ran[k].t = t /\ inv.ran[k].ok
                THEN Inputs(t) ELSE lastOk[t]
CacheSound == (Protocol = "wal" /\ disk.st = "ok") =>
                 \A t \in Tasks : disk.map[t] # EmptyD => disk.map[t] = EffLastOk(t)
\* ... and (crash-free, no failure since) the converse, behind C02
CacheComplete == (Protocol = "wal" /\ disk.st = "ok" /\ inv = Idle /\ ~crashed) =>
                 \A t \in Tasks : MustSkip(t) => disk.map[t] = Digest(t)

\* scenario export: one line per finished history (simulation mode)
EmitHist == (MaxHist > 0 /\ Len(hist) = MaxHist /\ inv = Idle) => PrintT(<<"HIST", ToJson(hist)>>)
==============================================================================
