------------------------------ MODULE TaskGraph ------------------------------
(* C03 -- the algorithm spok uses to turn a request into an execution order, as a state machine: *)
(*   Close   : collect the requested tasks and everything reachable through task dependencies     *)
(*   Detect  : undefined names, duplicate definitions, cycles => error, nothing runs              *)
(*   Pick    : Kahn's algorithm -- any vertex all of whose dependencies are done (the code        *)
(*             iterates Go maps, so every such choice is possible)                                *)
(* Init ranges over EVERY configuration within the bounds: which names are defined (once, twice, *)
(* not at all), every dependency function over the names plus one undefined name (self loops and *)
(* cycles included), every request list.  One model-checking run therefore covers them all.      *)
(* Variant = "pinned": the code as first read -- dependencies followed one level only, and a      *)
(* cycle detected only when no vertex at all has in-degree zero (named deviations).              *)
EXTENDS TaskGraphDefs, TLC

CONSTANTS Names, Undef, Variant, MaxReq

VARIABLES defs,    \* [Names -> 0..2]  times defined
          deps,    \* [Names -> SUBSET (Names \cup {Undef})]
          req,     \* request list
          phase,   \* "close" | "detect" | "sort" | "done"
          clo,     \* selected vertices
          done,    \* execution order so far
          outcome  \* "none" | "ok" | "error"
vars == <<defs, deps, req, phase, clo, done, outcome>>

Def == {n \in Names : defs[n] >= 1}
Dup == {n \in Names : defs[n] = 2}
D   == [n \in Def |-> deps[n]]
All == Names \cup {Undef}

ReqLists == UNION {[1..k -> All] : k \in 1..MaxReq}

Init == /\ defs \in [Names -> 0..2]
        /\ Cardinality({n \in Names : defs[n] # 1}) <= 1         \* at most one anomaly of definition per configuration
        /\ deps \in [Names -> SUBSET All]
        /\ \A n \in Names : defs[n] = 0 => deps[n] = {}
        /\ req \in ReqLists
        /\ phase = "close" /\ clo = {} /\ done = <<>> /\ outcome = "none"

OneLevel(S) == S \cup UNION {D[n] : n \in S \cap Def}
Close == /\ phase = "close"
         /\ clo' = IF Variant = "pinned" THEN OneLevel(SeqRange(req)) ELSE Closure(D, Def, req)
         /\ phase' = "detect"
         /\ UNCHANGED <<defs, deps, req, done, outcome>>

\* in-degree inside the selected sub-graph
Ready(n) == n \in clo /\ n \notin SeqRange(done) /\ (n \in Def => D[n] \cap clo \subseteq SeqRange(done))
PinnedErr == \/ Dup # {} \/ UndefIn(D, Def, SeqRange(req)) \/ UndefIn(D, Def, clo)
             \/ (clo # {} /\ ~\E n \in clo : n \in Def /\ D[n] \cap clo = {})     \* no vertex of in-degree 0
Detect == /\ phase = "detect"
          /\ IF (IF Variant = "pinned" THEN PinnedErr ELSE ErrCond(D, Def, Dup, req))
             THEN outcome' = "error" /\ phase' = "done"
             ELSE outcome' = outcome /\ phase' = "sort"
          /\ UNCHANGED <<defs, deps, req, clo, done>>

\* pinned Kahn only ever follows the edges it recorded: from requested tasks to their direct dependencies
PinnedReady(n) == n \in clo /\ n \notin SeqRange(done)
                  /\ (n \in SeqRange(req) /\ n \in Def => D[n] \cap clo \subseteq SeqRange(done))
Pick == /\ phase = "sort"
        /\ \E n \in clo : (IF Variant = "pinned" THEN PinnedReady(n) ELSE Ready(n))
                          /\ done' = Append(done, n)
        /\ UNCHANGED <<defs, deps, req, phase, clo, outcome>>

NoneReady == ~\E n \in clo : IF Variant = "pinned" THEN PinnedReady(n) ELSE Ready(n)
Finish == /\ phase = "sort" /\ NoneReady
          /\ outcome' = "ok" /\ phase' = "done"
          /\ UNCHANGED <<defs, deps, req, clo, done>>

Stutter == phase = "done" /\ UNCHANGED vars
Next == Close \/ Detect \/ Pick \/ Finish \/ Stutter
Spec == Init /\ [][Next]_vars /\ WF_vars(Close \/ Detect \/ Pick \/ Finish)

\* ---------------- C03 on the model ----------------
Finished == phase = "done"
OnceEach == Finished /\ outcome = "ok" => IsPermOf(done, Closure(D, Def, req))
DepsFirstInv == DepsFirst(D, Def, done)                      \* in every state, not only at the end
NothingTwice == NoDup(done)
ErrorRunsNothing == outcome = "error" => done = <<>>
ErrorIffAnomaly == Finished => (outcome = "error") = ErrCond(D, Def, Dup, req)
Terminates == <>Finished
==============================================================================
