----------------------------- MODULE SpokSyntax -----------------------------
(* The concrete syntax of spokfiles as a GENERATIVE specification (C06 C16, inputs for C07 C08   *)
(* C11 C15): an abstract spokfile (sequence of comments, assignments with string or builtin-call  *)
(* values, and tasks with docstring, dependencies, outputs and command lines) is written out in   *)
(* every layout the syntax admits, and the module states which token stream (type, byte offset,   *)
(* byte length, line) and which tree that text denotes.  Texts are sequences of PIECES             *)
(* [k: token type or "ws", id: lexeme id, n: byte length, nl: newlines]; the bytes of the lexemes  *)
(* live in a table shared with the driver (lexemes.json), so the specification stays ASCII and     *)
(* carries exact byte lengths (multi-byte letters included).                                       *)
(*                                                                                                 *)
(* Layout dimensions (strict mode = exactly the freedoms C06 lists): line ends LF/CRLF,           *)
(* indentation, blank lines, spacing on either side of := ( , ) -> {, trailing comma, bare or      *)
(* parenthesised single output, one-line or multi-line body, blank lines between commands,        *)
(* closing-brace indent, leading blank lines, final newlines, lists spread over several lines.    *)
(* Structures and (for the large random ones) their layout come from structures.json; small       *)
(* structures flagged `exh` are rendered in the default layout, every single deviation and every  *)
(* pair of deviations.                                                                             *)
EXTENDS Naturals, Sequences, FiniteSets, TLC, Json

LexLen     == JsonDeserialize("lexemes.json")       \* [lexeme id |-> byte length]
Structures == JsonDeserialize("structures.json")    \* <<[exh: BOOLEAN, lays: <<layout record>> (per statement), nodes: <<node>>]>>

WSLen == [none |-> 0, sp1 |-> 1, sp2 |-> 2, sp4 |-> 4, tab |-> 1]

Default == [eol |-> "lf", indent |-> "none", blank |-> 0, declL |-> "sp1", declR |-> "sp1", taskSp |-> "sp1",
            nameLp |-> "none", lpIn |-> "none", commaL |-> "none", commaR |-> "sp1", trail |-> FALSE, rpIn |-> "none",
            arrowL |-> "sp1", arrowR |-> "sp1", parenSingle |-> FALSE, lbL |-> "sp1", body |-> "multi",
            cmdIndent |-> "sp4", cmdBlank |-> 0, rbIndent |-> "none", lead |-> "none", finalNL |-> 1, listBreak |-> "none", oneL |-> "sp1", oneR |-> "sp1"]
Vals == [eol |-> {"lf", "crlf"}, indent |-> {"none", "sp2", "tab"}, blank |-> {0, 1, 2}, declL |-> {"none", "sp1", "tab"},
         declR |-> {"none", "sp1", "tab"}, taskSp |-> {"sp1", "sp2", "tab"}, nameLp |-> {"none", "sp1"}, lpIn |-> {"none", "sp1"},
         commaL |-> {"none", "sp1"}, commaR |-> {"none", "sp1", "tab"}, trail |-> BOOLEAN, rpIn |-> {"none", "sp1"},
         arrowL |-> {"none", "sp1"}, arrowR |-> {"none", "sp1"}, parenSingle |-> BOOLEAN, lbL |-> {"none", "sp1", "tab"},
         body |-> {"multi", "one"}, cmdIndent |-> {"none", "sp4", "tab"}, cmdBlank |-> {0, 1}, rbIndent |-> {"none", "sp2"},
         lead |-> {"none", "lf", "sp2lf"}, finalNL |-> {0, 1, 2}, listBreak |-> {"none", "lines"},
         oneL |-> {"none", "sp1", "sp2", "tab"}, oneR |-> {"none", "sp1", "sp2", "tab"}]      \* spacing inside the braces of a one-line body
Dims == DOMAIN Default
Layouts1 == UNION {{[Default EXCEPT ![d] = v] : v \in Vals[d]} : d \in Dims}
Layouts2 == UNION {UNION {{[l1 EXCEPT ![d] = v] : v \in Vals[d]} : d \in Dims} : l1 \in Layouts1}
ExhLayouts == {Default} \cup Layouts1 \cup Layouts2

\* ---------- pieces ----------
W(id) == IF id = "none" THEN << >> ELSE <<[k |-> "ws", id |-> id, n |-> WSLen[id], nl |-> 0]>>
Tk(ty, id, n) == <<[k |-> ty, id |-> id, n |-> n, nl |-> 0]>>
EOL(l) == IF l.eol = "lf" THEN <<[k |-> "ws", id |-> "lf", n |-> 1, nl |-> 1]>> ELSE <<[k |-> "ws", id |-> "crlf", n |-> 2, nl |-> 1]>>
RECURSIVE Rep(_, _)
Rep(s, k) == IF k = 0 THEN << >> ELSE s \o Rep(s, k - 1)
Arg(a) == IF a.k = "str" THEN Tk("STRING", a.id, LexLen[a.id] + 2) ELSE Tk("IDENT", a.id, LexLen[a.id])
\* listBreak = "lines": a non-empty list is spread over several lines -- a line break after `(`, after every comma and before `)`.
\* The lexer returns to the top level when a STRING is the last thing on its line, so in that layout a string element is always
\* followed by a comma (the last one by a trailing comma); an identifier may end its line.
Lines(as, l) == l.listBreak = "lines" /\ Len(as) > 0
RECURSIVE Args(_, _, _)
Args(as, i, l) == IF i > Len(as) THEN << >>
                  ELSE Arg(as[i]) \o (IF i < Len(as) THEN W(l.commaL) \o Tk("COMMA", "", 1) \o (IF Lines(as, l) THEN EOL(l) \o W(l.cmdIndent) ELSE W(l.commaR))
                                      ELSE IF l.trail \/ (Lines(as, l) /\ as[i].k = "str") THEN W(l.commaL) \o Tk("COMMA", "", 1) ELSE << >>)
                       \o Args(as, i + 1, l)
ArgList(as, l) == Tk("LPAREN", "", 1) \o (IF Lines(as, l) THEN EOL(l) \o W(l.cmdIndent) ELSE W(l.lpIn)) \o Args(as, 1, l)
                  \o (IF Lines(as, l) THEN EOL(l) ELSE << >>) \o W(l.rpIn) \o Tk("RPAREN", "", 1)
Comment(id, l) == W(l.indent) \o Tk("HASH", "", 1) \o Tk("COMMENT", id, LexLen[id])
RECURSIVE CmdLines(_, _, _)
CmdLines(cs, i, l) == IF i > Len(cs) THEN << >>
                      ELSE (IF i > 1 THEN Rep(EOL(l), l.cmdBlank) ELSE << >>) \o W(l.cmdIndent) \o Tk("COMMAND", cs[i], LexLen[cs[i]]) \o EOL(l)
                           \o CmdLines(cs, i + 1, l)
Body(cs, l) == IF Len(cs) = 0 THEN Tk("LBRACE", "", 1) \o Tk("RBRACE", "", 1)
               ELSE IF Len(cs) = 1 /\ l.body = "one"
                    THEN Tk("LBRACE", "", 1) \o W(l.oneL) \o Tk("COMMAND", cs[1], LexLen[cs[1]]) \o W(l.oneR) \o Tk("RBRACE", "", 1)
                    ELSE Tk("LBRACE", "", 1) \o EOL(l) \o CmdLines(cs, 1, l) \o W(l.rbIndent) \o Tk("RBRACE", "", 1)
Stmt(n, l) ==
  CASE n.k = "comment" -> Comment(n.id, l)
    [] n.k = "assign" -> W(l.indent) \o Tk("IDENT", n.name, LexLen[n.name]) \o W(l.declL) \o Tk("DECLARE", "", 2) \o W(l.declR)
                         \o (IF n.val.k = "str" THEN Arg(n.val)
                             ELSE Tk("IDENT", n.val.fn, LexLen[n.val.fn]) \o W(l.nameLp) \o ArgList(n.val.args, l))
    [] n.k = "task" -> (IF n.doc = "-" THEN << >> ELSE Comment(n.doc, l) \o EOL(l) \o Rep(EOL(l), l.blank))
                       \o W(l.indent) \o Tk("TASK", "", 4) \o W(l.taskSp) \o Tk("IDENT", n.name, LexLen[n.name]) \o W(l.nameLp)
                       \o ArgList(n.deps, l)
                       \o (IF Len(n.outs) = 0 THEN << >>
                           ELSE W(l.arrowL) \o Tk("OUTPUT", "", 2) \o W(l.arrowR)
                                \o (IF Len(n.outs) = 1 /\ ~l.parenSingle THEN Arg(n.outs[1]) ELSE ArgList(n.outs, l)))
                       \o W(l.lbL) \o Body(n.cmds, l)
\* the layout may differ from statement to statement (ls: one layout per statement; a shorter sequence repeats its last element),
\* so one file can mix line endings, indentation and spacing styles
LayAt(ls, i) == IF i <= Len(ls) THEN ls[i] ELSE ls[Len(ls)]
RECURSIVE Stmts(_, _, _)
Stmts(st, i, ls) == IF i > Len(st) THEN << >>
                    ELSE LET l == LayAt(ls, i) IN
                         Stmt(st[i], l)
                         \o (IF i < Len(st) THEN EOL(l) \o Rep(EOL(l), l.blank) ELSE Rep(EOL(l), l.finalNL))
                         \o Stmts(st, i + 1, ls)
Lead(l) == CASE l.lead = "none" -> << >> [] l.lead = "lf" -> EOL(l) [] OTHER -> W("sp2") \o EOL(l)
Render(st, ls) == Lead(ls[1]) \o Stmts(st, 1, ls)

\* ---------- the printer: the canonical text `--fmt` writes for a structure (independent of the layout it was read from) ----------
\* ast.Tree.String: comments as "# " + trimmed text (an empty comment prints nothing), `NAME := value`, tasks as
\* docstring / `task name(deps) -> outs {` / commands indented by four blanks / `}` and a blank line; single outputs bare,
\* lists joined by ", "; and a lone `#` line between a printed comment and a task without docstring text.
Trimmed == JsonDeserialize("trimmed.json")       \* [comment lexeme id |-> id of the lexeme holding its trimmed text]
LF == <<[k |-> "ws", id |-> "lf", n |-> 1, nl |-> 1]>>
RECURSIVE CArgs(_, _)
CArgs(as, i) == IF i > Len(as) THEN << >>
                ELSE Arg(as[i]) \o (IF i < Len(as) THEN Tk("COMMA", "", 1) \o W("sp1") ELSE << >>) \o CArgs(as, i + 1)
CArgList(as) == Tk("LPAREN", "", 1) \o CArgs(as, 1) \o Tk("RPAREN", "", 1)
CComment(id) == IF LexLen[id] = 0 THEN << >>
                ELSE Tk("HASH", "", 1) \o W("sp1") \o Tk("COMMENT", Trimmed[id], LexLen[Trimmed[id]]) \o LF
RECURSIVE CCmds(_, _)
CCmds(cs, i) == IF i > Len(cs) THEN << >> ELSE W("sp4") \o Tk("COMMAND", cs[i], LexLen[cs[i]]) \o LF \o CCmds(cs, i + 1)
DocPrints(n) == n.doc # "-" /\ LexLen[n.doc] > 0
CStmt(n) ==
  CASE n.k = "comment" -> CComment(n.id)
    [] n.k = "assign" -> Tk("IDENT", n.name, LexLen[n.name]) \o W("sp1") \o Tk("DECLARE", "", 2) \o W("sp1")
                         \o (IF n.val.k = "str" THEN Arg(n.val) ELSE Tk("IDENT", n.val.fn, LexLen[n.val.fn]) \o CArgList(n.val.args)) \o LF
    [] n.k = "task" -> (IF DocPrints(n) THEN CComment(n.doc) ELSE << >>)
                       \o Tk("TASK", "", 4) \o W("sp1") \o Tk("IDENT", n.name, LexLen[n.name]) \o CArgList(n.deps)
                       \o (IF Len(n.outs) = 0 THEN << >>
                           ELSE W("sp1") \o Tk("OUTPUT", "", 2) \o W("sp1") \o (IF Len(n.outs) = 1 THEN Arg(n.outs[1]) ELSE CArgList(n.outs)))
                       \o W("sp1") \o Tk("LBRACE", "", 1) \o LF \o CCmds(n.cmds, 1) \o Tk("RBRACE", "", 1) \o LF \o LF
RECURSIVE Canon(_, _, _)
\* afterComment: the last thing written was a comment line
Canon(st, i, afterComment) ==
  IF i > Len(st) THEN << >>
  ELSE LET n == st[i]
           sep == IF n.k = "task" /\ afterComment /\ ~DocPrints(n) THEN Tk("HASH", "", 1) \o LF ELSE << >>
           body == CStmt(n)
           after == IF body = << >> THEN afterComment ELSE n.k = "comment"
       IN sep \o body \o Canon(st, i + 1, after)

\* ---------- the token stream the text denotes ----------
RECURSIVE Toks(_, _, _, _)
Toks(ps, i, off, line) ==
  IF i > Len(ps) THEN <<[ty |-> "EOF", pos |-> off, len |-> 0, line |-> line]>>
  ELSE LET p == ps[i] IN
       (IF p.k = "ws" THEN << >> ELSE <<[ty |-> p.k, pos |-> off, len |-> p.n, line |-> line]>>)
       \o Toks(ps, i + 1, off + p.n, line + p.nl)

\* ---------- one scenario per state ----------
VARIABLES si, lay
Init == /\ si \in DOMAIN Structures
        /\ lay \in (IF Structures[si].exh THEN {<<l>> : l \in ExhLayouts} ELSE {Structures[si].lays})
Next == UNCHANGED <<si, lay>>
Pieces == Render(Structures[si].nodes, lay)
DToks == Toks(Pieces, 1, 0, 1)

\* well-formedness of the denotation itself
TokensOrdered == LET ts == DToks IN \A k \in 1..(Len(ts) - 1) : ts[k].pos + ts[k].len <= ts[k + 1].pos
EOFAtEnd == LET ts == DToks IN ts[Len(ts)].ty = "EOF"
\* a standalone comment is never directly followed by an undocumented task (that text would MEAN a docstring)
NoAccidentalDoc == \A i \in 1..(Len(Structures[si].nodes) - 1) :
                     ~(Structures[si].nodes[i].k = "comment" /\ Structures[si].nodes[i + 1].k = "task"
                       /\ Structures[si].nodes[i + 1].doc = "-")
Emit == LET ps == Pieces IN
        PrintT(<<"SYN", ToJson([si |-> si, pieces |-> [i \in 1..Len(ps) |-> [k |-> ps[i].k, id |-> ps[i].id]],
                               toks |-> Toks(ps, 1, 0, 1),
                               fmt |-> (LET cs == Canon(Structures[si].nodes, 1, FALSE) IN [i \in 1..Len(cs) |-> [k |-> cs[i].k, id |-> cs[i].id]])])>>)
==============================================================================
