---------------------------- MODULE SpokRunTrace ----------------------------
(* Judge for the run / cache family: TLC model-checks the transition graph that the Go          *)
(* explorer recorded from the REAL spok (every node a byte-exact state of the project directory, *)
(* every edge one real edit / cache removal / torn cache / invocation with what really happened).*)
(* TLC forms the product of that graph with the ghost history of SpokRunEnv and evaluates the    *)
(* property invariants in every product state; a counterexample is a history that was really    *)
(* executable, because the real system's response depends only on the real state.               *)
(*   graph.ndjson line n+1: [id |-> n, fs |-> [file |-> content], cache |-> ..., out |-> <<edge>>]*)
EXTENDS SpokRunEnv

Graph == ndJsonDeserialize("graph.ndjson")

VARIABLES node,    \* current node of the recorded graph
          eidx     \* index of the out-edge taken to get here (label only; hidden from the state identity by VIEW)

tvars == <<node, eidx, fs, lastOk, lastFailed, forcedT, crashed, viol>>

NodeRec(n) == Graph[n + 1]

TInit == /\ node = 0 /\ eidx = 0
         /\ EnvInit(NodeRec(0).fs)

ToObs(e) == [req |-> e.req, force |-> e.force, failing |-> e.failing, reports |-> e.reports, ran |-> e.ran,
             outcome |-> e.outcome, errcls |-> e.errcls, killed |-> e.killed,
             seen |-> IF "seen" \in DOMAIN e THEN e.seen ELSE [x \in {} |-> 0],      \* per task: the files when its turn came / when it
             done |-> IF "done" \in DOMAIN e THEN e.done ELSE [x \in {} |-> 0]]      \* had finished (absent in graphs built from the binary)

Step(e) ==
  CASE e.act = "edit"    -> EnvEdit(e.f, e.c)
    [] e.act = "rmcache" -> EnvRmCache
    [] e.act = "tear"    -> EnvTear
    [] e.act = "invoke"  -> fs' = NodeRec(e.dst).fs /\ Observe(ToObs(e))
    [] e.act = "reset"   -> Forget /\ fs' = NodeRec(e.dst).fs       \* start of another replayed history

TNext == \E i \in DOMAIN NodeRec(node).out :
            LET e == NodeRec(node).out[i] IN
            /\ node' = e.dst /\ eidx' = i
            /\ Step(e)

TSpec == TInit /\ [][TNext]_tvars

\* the state identity: everything but the edge label
TView == <<node, fs, lastOk, lastFailed, forcedT, crashed, viol>>

\* driver and specification agree on the environment (a disagreement is a machinery failure, not a verdict)
Inv_EnvSync == fs = NodeRec(node).fs
==========================================================================
