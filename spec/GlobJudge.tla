------------------------------ MODULE GlobJudge ------------------------------
(* Evaluates Glob!Conforms_C05 over the recorded real expansions (constant-level evaluation). *)
EXTENDS Glob
ASSUME JudgeOut
JInit == tree = {} /\ pat = <<>>
JNext == UNCHANGED <<tree, pat>>
==============================================================================
