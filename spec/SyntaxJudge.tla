----------------------------- MODULE SyntaxJudge -----------------------------
(* Relations of the syntax family (C06 C07 C08 C11 C15 C16) over records of what the real     *)
(* lexer, parser and printer returned for one input.  All strings are hex-encoded byte strings  *)
(* (equality is byte equality), the input and token values are byte arrays.                     *)
(*  record r: [in: <<byte>>, toks: <<[ty, pos, len, line, val: <<byte>>]>>, lexend, lexerr: E,   *)
(*             p1: [ok, tree: <<node>>, err: E], same, fmt, p2: [...], fmt2, outcome,            *)
(*             exp: <<node>> (C06: the structure the text was written from), hasexp]             *)
(*  node: [k, t, a, b, xs, ys, cs]   E: [lines: <<n>>, quotes: <<BOOLEAN>>, msg]                 *)
EXTENDS Integers, Sequences, FiniteSets, TLC, Json, SequencesExt, FiniteSetsExt

Recs == ndJsonDeserialize("recs.ndjson")
SeqRange(s) == {s[i] : i \in DOMAIN s}

\* ---------------- C16 ----------------
IsWS(b) == b \in {9, 10, 11, 12, 13, 32}                      \* ASCII white space; r.wsx lists the bytes of non-ASCII white-space runes
NLBefore(in, p) == Cardinality({i \in 1..p : in[i] = 10})     \* newlines among the first p bytes
NLines(in) == 1 + NLBefore(in, Len(in))
Slice(in, p, n) == SubSeq(in, p + 1, p + n)
AllWS(r, lo, hi) == \A i \in (lo + 1)..hi : IsWS(r.in[i]) \/ i \in SeqRange(r.wsx)     \* bytes at offsets lo .. hi-1

Tiles_C16(r) ==
  LET T == r.toks  N == Len(T) IN
  /\ r.outcome = "ok"
  /\ r.lexend \in {"EOF", "ERROR"}                             \* finite up to the first EOF / ERROR
  /\ N >= 1
  /\ \A k \in 1..N : T[k].ty # "ERROR" =>
        /\ T[k].pos >= 0 /\ T[k].pos + T[k].len <= Len(r.in)
        /\ T[k].val = Slice(r.in, T[k].pos, T[k].len)         \* the token's text is the slice at its offset
        /\ T[k].line = 1 + NLBefore(r.in, T[k].pos)            \* line = 1 + newlines before the offset
  /\ \A k \in 1..(N - 1) : (T[k].ty # "ERROR" /\ T[k + 1].ty # "ERROR") =>
        /\ T[k].pos + T[k].len <= T[k + 1].pos                 \* increasing, non-overlapping
        /\ AllWS(r, T[k].pos + T[k].len, T[k + 1].pos)         \* nothing but white space in between
  /\ T[1].ty # "ERROR" => AllWS(r, 0, T[1].pos)
  /\ T[N].ty = "EOF" => T[N].pos = Len(r.in)                   \* an error-free scan ends with EOF at the end

\* ---------------- C08 ----------------
Located(in, e) == /\ e.lines # <<>>
                  /\ \A i \in DOMAIN e.lines : e.lines[i] >= 1 /\ e.lines[i] <= NLines(in)
                  /\ \A i \in DOMAIN e.quotes : e.quotes[i]                  \* ... and quotes that line
Total_C08(r) ==
  /\ r.outcome = "ok"                                          \* no panic, hang or crash
  /\ r.same                                                    \* the same input gives the same result
  /\ r.lexend = "ERROR" => Located(r.in, r.lexerr)
  /\ ~r.p1.ok => Located(r.in, r.p1.err)                       \* a syntax error cites a line of the input and quotes it

\* ---------------- C06 ----------------
AstEq_C06(r) == r.hasexp => (r.outcome = "ok" /\ r.p1.ok /\ r.p1.tree = r.exp)

\* ---------------- C07 / C11 / C15 (only for inputs that parse) ----------------
RECURSIVE SemNode(_)
SemNode(n) == [k |-> n.k, a |-> n.a, xs |-> n.xs, ys |-> n.ys, cs |-> n.cs]     \* drops docstring (b, t)
Sem(tree) == LET keep == SelectSeq(tree, LAMBDA n : n.k # "comment") IN
             [i \in DOMAIN keep |-> SemNode(keep[i])]
SemEq_C07(r) == (r.outcome = "ok" /\ r.p1.ok) => (r.p2.ok /\ Sem(r.p1.tree) = Sem(r.p2.tree))

\* --fmt overwrites the file in place: what ends up on disk is the formatter's text (and the file is untouched when spok refuses)
FmtOnDisk_C07(r) == r.hasdisk => /\ r.disk.exit >= 0
                                 /\ r.disk.exit = 0 => r.disk.h = r.fmth
                                 /\ r.disk.exit # 0 => r.disk.h = r.origh

Idem_C11(r) == (r.outcome = "ok" /\ r.p1.ok /\ r.p2.ok) => r.fmt2 = r.fmt
\* `spok --fmt` run twice on the same file: the second run changes nothing (and a run that refuses changes nothing either)
FmtOnDisk_C11(r) == r.hasdisk => /\ r.disk.exit >= 0 /\ r.disk2.exit >= 0
                                 /\ r.disk.exit = 0 => (r.disk2.exit = 0 /\ r.disk2.h = r.disk.h)
                                 /\ r.disk.exit # 0 => r.disk.h = r.origh

Item(n) == CASE n.k = "comment" -> <<"c", n.t>>
             [] n.k = "task"    -> <<"t", n.a, n.t>>
             [] OTHER           -> <<"a", n.a>>
Items(tree) == LET keep == SelectSeq(tree, LAMBDA n : ~(n.k = "comment" /\ n.t = "")) IN
               [i \in DOMAIN keep |-> Item(keep[i])]
Kept_C15(r) == (r.outcome = "ok" /\ r.p1.ok /\ r.p2.ok) => Items(r.p1.tree) = Items(r.p2.tree)
\* the same for the file `spok --fmt` leaves on disk (dtree: what the parser reads from it; <<>> if it does not parse)
KeptOnDisk_C15(r) == (r.hasdtree /\ r.outcome = "ok" /\ r.p1.ok) => Items(r.p1.tree) = Items(r.dtree)

\* ---------------- model drift (never a verdict): predicted token stream / outcome vs the real one ----------------
TokKey(t) == <<t.ty, t.pos, t.len, t.line>>
Drift_Toks(r) == r.haspred => [i \in DOMAIN r.toks |-> TokKey(r.toks[i])] = [i \in DOMAIN r.pred |-> TokKey(r.pred[i])]

\* predicted parse outcome (ParseSM): tree / error and the line the error cites
Drift_Parse(r) == r.haspp => /\ (r.pp.k = "tree") = r.p1.ok
                             /\ (~r.p1.ok /\ r.pp.k = "err") => (r.p1.err.lines # <<>> /\ r.p1.err.lines[1] = r.pp.line)

\* the canonical text SpokSyntax's printer model denotes for the structure vs what the real formatter wrote
Drift_Fmt(r) == (r.haspf /\ r.p1.ok) => r.fmt = r.predfmt

Bad(P(_)) == SetToSeq({i \in DOMAIN Recs : ~P(Recs[i])})
ASSUME JsonSerialize("verdict.json",
  [Tiles_C16 |-> Bad(Tiles_C16), Total_C08 |-> Bad(Total_C08), AstEq_C06 |-> Bad(AstEq_C06),
   SemEq_C07 |-> Bad(SemEq_C07), FmtOnDisk_C07 |-> Bad(FmtOnDisk_C07), Idem_C11 |-> Bad(Idem_C11), Kept_C15 |-> Bad(Kept_C15),
   FmtOnDisk_C11 |-> Bad(FmtOnDisk_C11), KeptOnDisk_C15 |-> Bad(KeptOnDisk_C15),
   Drift_Toks |-> Bad(Drift_Toks), Drift_Parse |-> Bad(Drift_Parse), Drift_Fmt |-> Bad(Drift_Fmt),
   n |-> Len(Recs),
   nParsed |-> Cardinality({i \in DOMAIN Recs : Recs[i].p1.ok}),
   nErrors |-> Cardinality({i \in DOMAIN Recs : ~Recs[i].p1.ok}),
   nMultiTok |-> Cardinality({i \in DOMAIN Recs : Len(Recs[i].toks) >= 3}),
   nWithComments |-> Cardinality({i \in DOMAIN Recs : Recs[i].p1.ok /\ \E j \in DOMAIN Recs[i].p1.tree :
                                     Recs[i].p1.tree[j].k = "comment" \/ (Recs[i].p1.tree[j].k = "task" /\ Recs[i].p1.tree[j].t # "")})])
==============================================================================
