------------------------------- MODULE LexSM -------------------------------
(* The lexer of spok (lexer/lexer.go) transcribed at BYTE level as a state machine.                 *)
(* The input is a sequence of byte classes (sp tab nl cr t a s k x us hash q lp rp lb rb com col eq  *)
(* min gt dot, E1 E2 = the two bytes of a non-ASCII letter, bad = an invalid byte), decoded the way  *)
(* utf8.DecodeRuneInString does.  Every state function of the lexer is one or more labels (`fn`),    *)
(* skipWhitespace is the looping label WS with a continuation (`cont`), and the primitives           *)
(* next / backup / peek / absorb / emit / discard / atEOL are reproduced including their quirks      *)
(* (the byte-based current() in backup, the stale width left by peek inside atEOL, the one-byte step *)
(* back before `}` in one-line bodies, the error line taken from l.line after or before the backup). *)
(* The input is supplied LAZILY: Feed appends one byte only while the current label's look-ahead     *)
(* need is not met and Close ends it, so no byte is committed before the lexer can look at it --     *)
(* one model-checking run covers every input up to MaxLen.                                           *)
(* Variant = "pinned": the lexer as first read (named deviations: the task keyword matched by        *)
(* prefix; a command on a CRLF line keeps its carriage return).  Variant = "fixed": the repaired one.*)
(* Properties checked on the model: Tiles / EOFAtEnd / ErrLineOK / PosSane (C16) and Progress (C08). *)
(* The reachable (input, token stream) pairs are exported and compared with the real lexer.          *)
EXTENDS Naturals, Integers, Sequences, FiniteSets, TLC, Json
CONSTANTS Alphabet, MaxLen, Variant, Prefix
\* Prefix: bytes committed before the lazy feeding starts (<<>> = every input up to MaxLen; a keyword-rich prefix such as
\* <<"t","a","s","k","sp","a","lp">> with MaxLen = Len(Prefix) + 3 carries the exhaustive exploration into task heads and bodies)
\* bytes of lookahead a label may inspect
Need(f) == IF f = "Start1" THEN (IF Variant = "fixed" THEN 6 ELSE 4)
           ELSE IF f \in {"Cmds", "String"} THEN 4 ELSE 2

SP    == {"sp", "tab", "nl", "cr"}
LTR   == {"t", "a", "s", "k", "x", "EE"}  \* EE = the 2-byte letter decoded from E1 E2
IDN   == LTR \cup {"us"}
PUNCT == {"hash", "q", "lp", "rp", "lb", "rb", "com", "col", "dot", "min", "us"}
NONASCII == {"ERR", "EE"}

VARIABLES inp, closed, fn, cont, start, pos, line, sline, width, toks
vars == <<inp, closed, fn, cont, start, pos, line, sline, width, toks>>
N == Len(inp)

\* ---------- primitives (pure, on explicit arguments) ----------
Dec(p) == IF p >= N THEN [r |-> "ERR", w |-> 0]
          ELSE LET b == inp[p + 1] IN
               \* a lead byte (E1 = C3, F1 = D7) followed by a continuation byte (E2 = A9, F2 = 90) is one two-byte rune, and all
               \* four combinations are letters (U+00E9, U+00D0, U+05E9, U+05D0)
               IF b \in {"E1", "F1"} /\ p + 1 < N /\ inp[p + 2] \in {"E2", "F2"} THEN [r |-> "EE", w |-> 2]
               ELSE IF b \in {"E1", "E2", "F1", "F2", "bad"} THEN [r |-> "ERR", w |-> 1]
               ELSE [r |-> b, w |-> 1]
ByteAt(p) == IF p < N THEN inp[p + 1] ELSE "EOF"
Pref(p, s) == /\ p < N                      \* rest() is "" at EOF
              /\ p + Len(s) <= N
              /\ \A i \in 1..Len(s) : inp[p + i] = s[i]
AtEOF(p) == p >= N
\* atEOL() calls peek(): result plus the width it leaves behind
AtEOLv(p) == Dec(p).r = "nl" \/ Pref(p, <<"cr", "nl">>)
\* backup from position p with width w on line ln: new (pos, line)
BackPos(p, w) == p - w
BackLine(p, w, ln) == IF w = 1 /\ ByteAt(p - w) = "nl" THEN ln - 1 ELSE ln

\* strings.TrimRight(all(), "\r"): step back over trailing carriage returns, not beyond the token start
RECURSIVE TrimCR(_, _)
TrimCR(st, p) == IF p > st /\ ByteAt(p - 1) = "cr" THEN TrimCR(st, p - 1) ELSE p

\* strings.TrimRight(all(), " \t\r"): the blanks between a command and the closing brace are layout
RECURSIVE TrimBlank(_, _)
TrimBlank(st, p) == IF p > st /\ ByteAt(p - 1) \in {"sp", "tab", "cr"} THEN TrimBlank(st, p - 1) ELSE p

Tok(ty, s, e, ln) == [ty |-> ty, s |-> s, e |-> e, ln |-> ln, ml |-> 0]
ErrTok(ml) == [ty |-> "ERROR", s |-> start, e |-> start, ln |-> sline, ml |-> ml]

Ready == closed \/ N >= pos + Need(fn)
Running == fn # "Done"

\* ---------- environment: lazily extend the input ----------
Feed == /\ Running /\ ~closed /\ N < pos + Need(fn) /\ N < MaxLen
        /\ \E b \in Alphabet : inp' = Append(inp, b)
        /\ UNCHANGED <<closed, fn, cont, start, pos, line, sline, width, toks>>
Close == /\ Running /\ ~closed /\ N < pos + Need(fn)
         /\ closed' = TRUE
         /\ UNCHANGED <<inp, fn, cont, start, pos, line, sline, width, toks>>

\* ---------- helpers to write next-state ----------
Set(f, c, st, p, ln, sl, w, tk) ==
  /\ fn' = f /\ cont' = c /\ start' = st /\ pos' = p /\ line' = ln /\ sline' = sl /\ width' = w /\ toks' = tk
  /\ UNCHANGED <<inp, closed>>
Fail(ml) == Set("Done", "", start, pos, line, sline, width, Append(toks, ErrTok(ml)))
\* emit token [start,p) then start := p, sline := ln ; continue at f (via WS if c # "")
EmitGo(ty, p, ln, w, f, c) == Set(f, c, p, p, ln, ln, w, Append(toks, Tok(ty, start, p, sline)))

\* ---------- skipWhitespace as a looping state with continuation ----------
WS == /\ fn = "WS" /\ Ready
      /\ LET d == Dec(pos) IN
         IF d.r \in SP
         THEN Set("WS", cont, start, pos + d.w, IF d.r = "nl" THEN line + 1 ELSE line, sline, d.w, toks)
         ELSE Set(cont, "", pos, pos, line, line, d.w, toks)       \* next; backup; discard

Start0 == fn = "Start0" /\ Ready /\ Set("WS", "Start1", start, pos, line, sline, width, toks)
Start1 == /\ fn = "Start1" /\ Ready
          /\ IF Pref(pos, <<"hash">>) THEN Set("Hash", "", start, pos, line, sline, width, toks)
             ELSE IF Pref(pos, <<"t", "a", "s", "k">>) /\ (Variant = "fixed" => Dec(pos + 4).r \notin IDN)
                  THEN Set("TaskKw", "", start, pos, line, sline, width, toks)
             ELSE IF Dec(pos).r \in IDN THEN Set("IdentLoop", "", start, pos, line, sline, Dec(pos).w, toks)
             ELSE IF AtEOF(pos) THEN Set("Done", "", pos, pos, line, line, Dec(pos).w, Append(toks, Tok("EOF", start, pos, sline)))
             ELSE Fail(line)
Hash == fn = "Hash" /\ Ready /\ EmitGo("HASH", pos + 1, line, width, "Comment", "")
Comment == /\ fn = "Comment" /\ Ready
           /\ IF AtEOLv(pos) \/ AtEOF(pos)
              THEN EmitGo("COMMENT", pos, line, Dec(pos).w, "Start0", "")
              ELSE LET d == Dec(pos) IN Set("Comment", "", start, pos + d.w, line, sline, d.w, toks)
TaskKw == fn = "TaskKw" /\ Ready /\ EmitGo("TASK", pos + 4, line, width, "WS", "TaskNameLoop")
NameLoop(me, after) ==
  /\ fn = me /\ Ready
  /\ LET d == Dec(pos) IN
     IF d.r \in IDN THEN Set(me, "", start, pos + d.w, line, sline, d.w, toks)
     ELSE EmitGo("IDENT", pos, line, d.w, "WS", after)
TaskNameLoop == NameLoop("TaskNameLoop", "TaskNameAfter")
TaskNameAfter == /\ fn = "TaskNameAfter" /\ Ready
                 /\ IF Dec(pos).r # "lp" THEN Fail(line)
                    ELSE Set("LParen", "", start, pos, line, sline, Dec(pos).w, toks)
LParen == fn = "LParen" /\ Ready /\ EmitGo("LPAREN", pos + 1, line, width, "WS", "Args1")
Args1 == /\ fn = "Args1" /\ Ready
         /\ LET d == Dec(pos) p1 == pos + d.w ln1 == IF d.r = "nl" THEN line + 1 ELSE line IN
            CASE d.r = "rp"  -> Set("RParen", "", start, pos, line, sline, d.w, toks)        \* next; backup
              [] d.r = "q"   -> Set("String", "", start, p1, ln1, sline, d.w, toks)
              [] d.r \in IDN -> Set("IdentLoop", "", start, p1, ln1, sline, d.w, toks)
              [] d.r = "com" -> Set("Comma", "", start, pos, line, sline, d.w, toks)
              [] d.r = "lb"  -> Set("LBrace", "", start, pos, line, sline, d.w, toks)
              [] OTHER       -> Fail(ln1)
RParen == fn = "RParen" /\ Ready /\ EmitGo("RPAREN", pos + 1, line, width, "WS", "RParenAfter")
RParenAfter == /\ fn = "RParenAfter" /\ Ready
               /\ LET d == Dec(pos) IN
                  CASE d.r = "lb" -> Set("LBrace", "", start, pos, line, sline, d.w, toks)
                    [] Pref(pos, <<"min", "gt">>) -> Set("OutOp", "", start, pos, line, sline, d.w, toks)
                    [] AtEOLv(pos) \/ AtEOF(pos) \/ d.r \in IDN -> Set("Start0", "", start, pos, line, sline, d.w, toks)
                    [] d.r = "hash" -> Set("Hash", "", start, pos, line, sline, d.w, toks)
                    [] OTHER -> Fail(line)
OutOp == fn = "OutOp" /\ Ready /\ EmitGo("OUTPUT", pos + 2, line, width, "WS", "OutOpAfter")
OutOpAfter == /\ fn = "OutOpAfter" /\ Ready
              /\ LET d == Dec(pos) p1 == pos + d.w ln1 == IF d.r = "nl" THEN line + 1 ELSE line IN
                 CASE d.r = "q"   -> Set("String", "", start, p1, ln1, sline, d.w, toks)
                   [] d.r = "lp"  -> Set("LParen", "", start, pos, line, sline, d.w, toks)
                   [] d.r \in IDN -> Set("IdentLoop", "", start, p1, ln1, sline, d.w, toks)
                   [] d.r = "lb"  -> Fail(line)                                   \* backup, then error
                   [] d.r \in PUNCT -> Fail(ln1)                                  \* no backup
                   [] OTHER       -> Fail(BackLine(p1, d.w, ln1))                 \* backup, unexpectedToken
LBrace == fn = "LBrace" /\ Ready /\ EmitGo("LBRACE", pos + 1, line, width, "WS", "Body0")
Body0 == /\ fn = "Body0" /\ Ready
         /\ IF AtEOF(pos) THEN Fail(line) ELSE Set("WS", "Body1", start, pos, line, sline, width, toks)
Body1 == /\ fn = "Body1" /\ Ready
         /\ LET d == Dec(pos) p1 == pos + d.w ln1 == IF d.r = "nl" THEN line + 1 ELSE line IN
            CASE d.r = "rb"   -> Set("RBrace", "", start, pos, line, sline, d.w, toks)
              [] d.r \in LTR  -> Set("Cmds", "", start, p1, ln1, sline, d.w, toks)
              [] OTHER        -> Fail(ln1)
RBrace == fn = "RBrace" /\ Ready /\ EmitGo("RBRACE", pos + 1, line, width, "Start0", "")
Cmds == /\ fn = "Cmds" /\ Ready
        /\ LET d == Dec(pos) p1 == pos + d.w ln1 == IF d.r = "nl" THEN line + 1 ELSE line IN
           CASE d.r = "nl" -> LET pe == IF Variant = "fixed" THEN TrimCR(start, pos) ELSE pos IN
                              EmitGo("COMMAND", pe, line, d.w, "WS", "Cmds")        \* backup; (drop a \r); emit; skipWS
             [] Pref(p1, <<"lb", "lb">>) -> Set("Cmds", "", start, p1 + 2, ln1, sline, d.w, toks)
             [] Pref(p1, <<"rb", "rb">>) -> Set("Cmds", "", start, p1 + 2, ln1, sline, d.w, toks)
             [] d.r = "rb" -> LET pe0 == IF pos > start /\ ByteAt(pos - 1) = "sp" THEN pos - 1 ELSE pos      \* pinned: exactly one space
                                  pe == IF Variant = "fixed" THEN TrimBlank(start, pos) ELSE pe0 IN            \* fixed: every trailing blank and CR
                              IF pe > start
                              THEN Set("WS", "RBrace", pe, pe, line, line, d.w, Append(toks, Tok("COMMAND", start, pe, sline)))
                              ELSE Set("WS", "RBrace", start, pe, line, sline, d.w, toks)
             [] AtEOF(p1) \/ d.r = "hash" -> Fail(ln1)
             [] d.r \notin NONASCII -> Set("Cmds", "", start, p1, ln1, sline, d.w, toks)
             [] OTHER -> Fail(BackLine(p1, d.w, ln1))
IdentLoop == NameLoop("IdentLoop", "IdentAfter")
IdentAfter == /\ fn = "IdentAfter" /\ Ready
              /\ LET d == Dec(pos) IN
                 CASE d.r = "lp" -> Set("LParen", "", start, pos, line, sline, d.w, toks)
                   [] Pref(pos, <<"col", "eq">>) -> Set("Declare", "", start, pos, line, sline, d.w, toks)
                   [] AtEOLv(pos) \/ AtEOF(pos) -> Set("Start0", "", start, pos, line, sline, d.w, toks)
                   [] d.r = "rp"  -> Set("RParen", "", start, pos, line, sline, d.w, toks)
                   [] d.r = "com" -> Set("Comma", "", start, pos, line, sline, d.w, toks)
                   [] d.r = "lb"  -> Set("LBrace", "", start, pos, line, sline, d.w, toks)
                   [] OTHER -> Fail(line)
Comma == fn = "Comma" /\ Ready /\ EmitGo("COMMA", pos + 1, line, width, "WS", "CommaAfter")
CommaAfter == /\ fn = "CommaAfter" /\ Ready
              /\ LET d == Dec(pos) p1 == pos + d.w ln1 == IF d.r = "nl" THEN line + 1 ELSE line IN
                 CASE d.r = "q"   -> Set("String", "", start, p1, ln1, sline, d.w, toks)
                   [] d.r \in IDN -> Set("IdentLoop", "", start, p1, ln1, sline, d.w, toks)
                   [] d.r = "rp"  -> Set("RParen", "", start, pos, line, sline, d.w, toks)
                   [] OTHER       -> Fail(BackLine(p1, d.w, ln1))
Declare == fn = "Declare" /\ Ready /\ Set("WS", "Declare1", start, pos, line, sline, width, toks)
Declare1 == fn = "Declare1" /\ Ready /\ EmitGo("DECLARE", pos + 2, line, width, "WS", "Declare2")
Declare2 == /\ fn = "Declare2" /\ Ready
            /\ LET d == Dec(pos) p1 == pos + d.w ln1 == IF d.r = "nl" THEN line + 1 ELSE line IN
               CASE d.r = "q"   -> Set("String", "", start, p1, ln1, sline, d.w, toks)
                 [] d.r \in IDN -> Set("IdentLoop", "", start, p1, ln1, sline, d.w, toks)
                 [] OTHER       -> Fail(BackLine(p1, d.w, ln1))
String == /\ fn = "String" /\ Ready
          /\ LET d == Dec(pos) p1 == pos + d.w ln1 == IF d.r = "nl" THEN line + 1 ELSE line IN
             IF d.r = "q"
             THEN \* emit STRING, then: atEOF || atEOL ? Start : Args
                  IF AtEOF(p1) THEN EmitGo("STRING", p1, ln1, d.w, "Start0", "")
                  ELSE IF AtEOLv(p1) THEN EmitGo("STRING", p1, ln1, Dec(p1).w, "Start0", "")
                  ELSE EmitGo("STRING", p1, ln1, Dec(p1).w, "WS", "Args1")
             ELSE IF AtEOF(p1) THEN Fail(BackLine(p1, d.w, ln1))
             ELSE IF AtEOLv(p1) THEN Fail(BackLine(p1, Dec(p1).w, ln1))         \* stale width from peek
             ELSE Set("String", "", start, p1, ln1, sline, Dec(p1).w, toks)

Init == /\ inp = Prefix /\ closed = FALSE /\ fn = "Start0" /\ cont = ""
        /\ start = 0 /\ pos = 0 /\ line = 1 /\ sline = 1 /\ width = 0 /\ toks = <<>>
LexStep == \/ WS \/ Start0 \/ Start1 \/ Hash \/ Comment \/ TaskKw \/ TaskNameLoop \/ TaskNameAfter
           \/ LParen \/ Args1 \/ RParen \/ RParenAfter \/ OutOp \/ OutOpAfter \/ LBrace \/ Body0 \/ Body1
           \/ RBrace \/ Cmds \/ IdentLoop \/ IdentAfter \/ Comma \/ CommaAfter \/ Declare \/ Declare1
           \/ Declare2 \/ String
Next == Feed \/ Close \/ LexStep
Spec == Init /\ [][Next]_vars

\* ---------- properties on the model ----------
NLBefore(p) == Cardinality({i \in 1..p : inp[i] = "nl"})
IsWSByte(b) == b \in SP
Tiles ==
  \A k \in 1..Len(toks) :
    /\ toks[k].s <= toks[k].e /\ toks[k].e <= N
    /\ toks[k].ln = 1 + NLBefore(toks[k].s)
    /\ k > 1 => /\ toks[k - 1].e <= toks[k].s
                /\ toks[k - 1].ty # "ERROR" => \A i \in (toks[k - 1].e + 1)..toks[k].s : IsWSByte(inp[i])
    /\ (k = 1 /\ toks[k].ty # "ERROR") => \A i \in 1..toks[k].s : IsWSByte(inp[i])
EOFAtEnd == \A k \in 1..Len(toks) : toks[k].ty = "EOF" => toks[k].s = N /\ closed
ErrLineOK == \A k \in 1..Len(toks) : toks[k].ty = "ERROR" => toks[k].ml >= 1 /\ toks[k].ml <= 1 + NLBefore(N)
PosSane == start <= pos /\ pos <= N + 0 /\ line >= 1
\* progress: every lexer step consumes input, emits a token, or moves to a later label of the same function
Progress == [][LexStep => (pos' > pos \/ Len(toks') > Len(toks) \/ fn' # fn)]_vars
Emit == (fn = "Done") => PrintT(<<"LEX", ToJson([inp |-> inp, toks |-> toks])>>)
\* abstraction used only to *generate deep tests*: one concrete behaviour per abstract state
Win(k) == [i \in 1..k |-> ByteAt(pos + i - 1)]
Unread == SubSeq(inp, pos + 1, N)
DeepView == <<fn, cont, width, Unread, pos = start, IF pos > 0 THEN ByteAt(pos - 1) ELSE "BOF", closed>>
EmitAll == PrintT(<<"LEX", ToJson([inp |-> inp, toks |-> toks, fin |-> (fn = "Done")])>>)
=============================================================================
