---------------------------- MODULE HashJudge ----------------------------
(* Judges what the hash driver recorded from the real hash.Concurrent.Hash against the        *)
(* property-level part of the HashPool specification.  Every record is one real execution      *)
(* (possibly repeated): the file-system universe it ran on, the list it was given, what came   *)
(* back.  Nothing here depends on how the implementation is structured.                        *)
(*   record: [id, root, ents: <<[p, k, c]>> (one per list position),                            *)
(*            outs: <<[outcome, digest]>>, leak, outcome, feasible, gated, ...]                 *)
EXTENDS Integers, Sequences, FiniteSets, TLC, Json, SequencesExt, FiniteSetsExt

Recs   == ndJsonDeserialize("recs.ndjson")
OrdAbs == JsonDeserialize("ord_abs.json")     \* record indices sorted by (root, abstract bag)
OrdDig == JsonDeserialize("ord_dig.json")     \* record indices sorted by (root, digest)


\* r.ents is aligned with r.list: for every list position the scenario's description of that path
\* [p |-> path, k |-> "reg" | "dir" | "absent" | "dangling" | "vanish" | "eio", c |-> content]   (eio: opens, but reading it fails)
IsBad(e) == e.k \in {"absent", "dangling", "vanish", "eio"}
BadListed(r) == \E i \in DOMAIN r.ents : IsBad(r.ents[i])
RegIdx(r)    == {i \in DOMAIN r.ents : r.ents[i].k = "reg"}
\* the collection of (absolute path, content) pairs of the regular files of the list, as a bag ...
AbsBag(r) == LET ps == {r.ents[i].p : i \in RegIdx(r)} IN
             [p \in ps |-> LET I == {i \in RegIdx(r) : r.ents[i].p = p} IN
                           <<r.ents[CHOOSE i \in I : TRUE].c, Cardinality(I)>>]
\* ... and as a set
AbsSet(r) == {<<r.ents[i].p, r.ents[i].c>> : i \in RegIdx(r)}
Digests(r) == {r.outs[i].digest : i \in {j \in DOMAIN r.outs : r.outs[j].outcome = "digest"}}
Outcomes(r) == {r.outs[i].outcome : i \in DOMAIN r.outs}

\* ---- C18: returns cleanly -------------------------------------------------------------
Clean_C18(r) ==
  /\ r.outcome = "ok"                                  \* the process survived: no crash, hang, race report
  /\ Outcomes(r) \subseteq {"digest", "error"}         \* no panic
  /\ (BadListed(r) /\ ~r.churn) => Outcomes(r) = {"error"}   \* unreadable entry: an error, never a digest
                                                        \* (files churned concurrently may or may not be readable: digest or error)
  /\ r.leak <= 0                                       \* nothing left behind

\* ---- C04: deterministic, change-sensitive function of the file set ------------------------
\* R0: a readable list yields a digest, the same one on every repetition / schedule of this record
Determ_C04(r) == ~BadListed(r) /\ ~r.churn /\ r.outcome = "ok" =>
                   /\ Outcomes(r) = {"digest"} /\ Cardinality(Digests(r)) = 1
\* R1: equal collections (same root) => equal digests        (adjacent pairs of the abs ordering)
SameFun_C04(k) == LET a == Recs[OrdAbs[k]] b == Recs[OrdAbs[k + 1]] IN
                  (a.root = b.root /\ ~BadListed(a) /\ ~BadListed(b) /\ AbsBag(a) = AbsBag(b)
                   /\ a.outcome = "ok" /\ b.outcome = "ok")
                  => Digests(a) = Digests(b)
\* R2: different collections (as sets) => different digests    (adjacent pairs of the digest ordering)
Inject_C04(k) == LET a == Recs[OrdDig[k]] b == Recs[OrdDig[k + 1]] IN
                 (a.root = b.root /\ ~BadListed(a) /\ ~BadListed(b) /\ a.outcome = "ok" /\ b.outcome = "ok"
                  /\ Digests(a) \cap Digests(b) # {})
                 => AbsSet(a) = AbsSet(b)
\* model drift (never a verdict): an order the pool model calls reachable could not be forced
Drift_Gate(r) == r.gated => r.feasible

Bad(P(_), S) == SetToSeq({i \in S : ~P(i)})
OnRec(P(_)) == Bad(LAMBDA i : P(Recs[i]), DOMAIN Recs)

ASSUME JsonSerialize("verdict.json",
   [ Clean_C18  |-> OnRec(Clean_C18),
     Determ_C04 |-> OnRec(Determ_C04),
     SameFun_C04 |-> Bad(SameFun_C04, 1..(Len(OrdAbs) - 1)),
     Inject_C04  |-> Bad(Inject_C04, 1..(Len(OrdDig) - 1)),
     Drift_Gate  |-> OnRec(Drift_Gate),
     n |-> Len(Recs),
     nBad |-> Cardinality({i \in DOMAIN Recs : BadListed(Recs[i])}),
     nAbs |-> Cardinality({<<Recs[i].root, AbsBag(Recs[i])>> : i \in {j \in DOMAIN Recs : Len(Recs[j].ents) <= 8}}) ])
==========================================================================
