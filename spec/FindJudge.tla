------------------------------ MODULE FindJudge ------------------------------
(* Judges recorded real calls of file.Find against the declarative meaning of C17 (the same    *)
(* Expected / Ancestors as in Find.tla, on records instead of state variables).                 *)
(*  record: [spok: <<kind of level 0..d>>, uspok: kind of the unrelated directory,               *)
(*           start, stop: level or -1 (unrelated), outcome: found | notfound | error | hang | crash | panic, *)
(*           level: level of the directory of the returned path, -1 unrelated, -5 somewhere else] *)
EXTENDS Integers, Sequences, FiniteSets, TLC, Json, FiniteSetsExt, SequencesExt

Recs == ndJsonDeserialize("recs.ndjson")

U == 0 - 1
Root == 0 - 2
Kind(r, l) == IF l = U THEN r.uspok ELSE r.spok[l + 1]
\* r.ua: the level the unrelated directory hangs off (-2: directly off the sandbox root)
Ancestors(r, d) == IF d = U THEN {U} \cup (IF r.ua = Root THEN {} ELSE 0..r.ua) ELSE 0..d
Above(r, d, s) == d # s /\ (d = Root \/ d \in Ancestors(r, s))
RankOf(r, d) == IF d = Root THEN 0 - 1 ELSE IF d = U THEN (IF r.ua = Root THEN 0 ELSE r.ua + 1) ELSE d
\* the directories at or above start that are not above stop; the regular files named spokfile among them
Cands(r) == {d \in Ancestors(r, r.start) : ~Above(r, d, r.stop)}
Hits(r) == {d \in Cands(r) : Kind(r, d) = "file"}
Constrained(r) == r.stop \in Ancestors(r, r.start)

Conforms_C17(r) ==
  /\ r.outcome \in {"found", "notfound"}                       \* it returned: no hang, crash or panic
  /\ IF Hits(r) = {} THEN r.outcome = "notfound"               \* also when start is not below stop: nothing above stop is returned
     ELSE /\ r.outcome = "found" /\ r.level \in Hits(r)
          /\ \A m \in Hits(r) : RankOf(r, m) <= RankOf(r, r.level)      \* the nearest one

ASSUME JsonSerialize("verdict.json",
   [Conforms_C17 |-> SetToSeq({i \in DOMAIN Recs : ~Conforms_C17(Recs[i])}),
    n |-> Len(Recs),
    nConstrainedFound |-> Cardinality({i \in DOMAIN Recs : Constrained(Recs[i]) /\ Hits(Recs[i]) # {}}),
    nAboveBlocked |-> Cardinality({i \in DOMAIN Recs : ~Constrained(Recs[i]) /\ \E d \in Ancestors(Recs[i], Recs[i].start) :
                                        Above(Recs[i], d, Recs[i].stop) /\ Kind(Recs[i], d) = "file"}),
    nUnconstrained |-> Cardinality({i \in DOMAIN Recs : ~Constrained(Recs[i])})])
==============================================================================
