------------------------------ MODULE FindJudge ------------------------------
(* Judges recorded real calls of file.Find against the declarative meaning of C17 (the same    *)
(* Expected / Ancestors as in Find.tla, on records instead of state variables).                 *)
(*  record: [spok: <<kind of level 0..d>>, uspok: kind of the unrelated directory,               *)
(*           start, stop: level or -1 (unrelated), outcome: found | notfound | error | hang | crash | panic, *)
(*           level: level of the directory of the returned path, -1 unrelated, -5 somewhere else] *)
EXTENDS Integers, Sequences, FiniteSets, TLC, Json, FiniteSetsExt, SequencesExt

Recs == ndJsonDeserialize("recs.ndjson")

Kind(r, l) == IF l = 0 - 1 THEN r.uspok ELSE r.spok[l + 1]
Constrained(r) == r.start >= 0 /\ r.stop >= 0 /\ r.stop <= r.start
Hits(r) == {l \in r.stop..r.start : Kind(r, l) = "file"}
Ancestors(r) == IF r.start = 0 - 1 THEN {0 - 1} ELSE 0..r.start

Conforms_C17(r) ==
  /\ r.outcome \in {"found", "notfound"}                       \* it returned: no hang, crash or panic
  /\ IF Constrained(r)
     THEN IF Hits(r) = {} THEN r.outcome = "notfound"
          ELSE r.outcome = "found" /\ r.level = Max(Hits(r))    \* the nearest one, never above the stop directory
     ELSE IF r.start >= 0 /\ r.stop >= 0
     \* start lies above stop: every directory at or above start is above the stop directory; either answer is accepted
     THEN r.outcome = "notfound" \/ (r.level \in Ancestors(r) /\ Kind(r, r.level) = "file")
     \* start or stop is the unrelated directory: no directory at or above start is above stop (but the spokfile-free root),
     \* so the nearest enclosing spokfile has to be found
     ELSE LET H == {l \in Ancestors(r) : Kind(r, l) = "file"} IN
          IF H = {} THEN r.outcome = "notfound" ELSE r.outcome = "found" /\ r.level = Max(H)

ASSUME JsonSerialize("verdict.json",
   [Conforms_C17 |-> SetToSeq({i \in DOMAIN Recs : ~Conforms_C17(Recs[i])}),
    n |-> Len(Recs),
    nConstrainedFound |-> Cardinality({i \in DOMAIN Recs : Constrained(Recs[i]) /\ Hits(Recs[i]) # {}}),
    nUnconstrained |-> Cardinality({i \in DOMAIN Recs : ~Constrained(Recs[i])})])
==============================================================================
