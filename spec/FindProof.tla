----------------------------- MODULE FindProof -----------------------------
(* TLAPS proof that the repaired walk (Variant = "fixed") of Find.tla satisfies CorrectP and        *)
(* NeverAboveStop for EVERY depth of the directory chain, every place the unrelated directory can    *)
(* hang and every set of path spellings: the model checker covers Depth <= 3 exhaustively, this      *)
(* removes the bound.  CorrectP is Correct without CHOOSE; TLC checks `CorrectAgree` (the two        *)
(* formulations agree) in every bounded run.                                                         *)
(* Checked with: tlapm --threads 16 FindProof.tla   (tools/check C17 --tier thorough runs it)        *)
EXTENDS Find, TLAPS

ASSUME DepthNat == Depth \in Nat
ASSUME Fixed == Variant = "fixed"

\* directories already left behind on the way from start up to cur: those nearer to start than cur
Passed == {d \in Ancestors(start) : RankOf(d) > RankOf(cur)}

IInv ==
  /\ spok \in [Dirs -> Kinds] /\ start \in Dirs /\ stop \in Dirs /\ ua \in Levels \cup {Root}
  /\ phase \in {"abs", "scan", "stoptest", "up", "done"}
  /\ cur \in AncestorsR(start)
  /\ phase = "abs" => cur = start
  /\ phase # "abs" => curSp = "clean" /\ stopSp = "clean"
  /\ phase # "done" => /\ result = NoRes
                       /\ \A d \in Passed : spok[d] # "file"
  /\ phase \in {"stoptest", "up"} => cur # Root /\ ~Above(cur, stop) /\ spok[cur] # "file"
  /\ CorrectP

LEMMA Consts == /\ U = -1 /\ Root = -2 /\ NotFound = -7 /\ NoRes = -8
                /\ Levels = 0..Depth /\ Dirs = (0..Depth) \cup {-1}
  BY DEF U, Root, NotFound, NoRes, Levels, Dirs

\* ---- the shape of the tree: the directories at or above start form a chain ordered by RankOf ----
\* (stated for arbitrary a, b instead of the state variables so that they can be used at any point)
LEMMA ChainFacts ==
  ASSUME ua \in Levels \cup {Root}, start \in Dirs
  PROVE  /\ \A a, b \in AncestorsR(start) : RankOf(a) = RankOf(b) => a = b
         /\ \A a, b \in AncestorsR(start) : RankOf(a) < RankOf(b) => Above(a, b)
         /\ \A a \in AncestorsR(start) : RankOf(a) \in Int /\ RankOf(a) >= -1
         /\ \A a \in Ancestors(start) : Parent(a) \in AncestorsR(start) /\ RankOf(Parent(a)) = RankOf(a) - 1 /\ a # Root
         /\ \A a \in Ancestors(start) : RankOf(a) <= RankOf(start)
  BY Consts, DepthNat DEF AncestorsR, Ancestors, RankOf, Above, Parent

LEMMA AboveTrans ==
  ASSUME ua \in Levels \cup {Root}, NEW a \in Dirs \cup {Root}, NEW b \in Dirs \cup {Root}, NEW c \in Dirs,
         Above(a, b), Above(b, c)
  PROVE  Above(a, c)
  BY Consts, DepthNat DEF Above, Ancestors

LEMMA InitInv == Init => IInv
  <1> SUFFICES ASSUME Init PROVE IInv OBVIOUS
  <1>1. phase = "abs" /\ cur = start /\ result = NoRes BY Fixed DEF Init
  <1>2. spok \in [Dirs -> Kinds] /\ start \in Dirs /\ stop \in Dirs /\ ua \in Levels \cup {Root}
    BY DEF Init
  <1>3. Passed = {}
    <2>1. \A a \in Ancestors(start) : RankOf(a) <= RankOf(start) /\ RankOf(a) \in Int
      BY <1>2, ChainFacts DEF AncestorsR
    <2>2. RankOf(start) \in Int BY <1>2, ChainFacts, Consts, DepthNat DEF AncestorsR, Ancestors
    <2> QED BY <2>1, <2>2, <1>1 DEF Passed
  <1>4. cur \in AncestorsR(start) BY <1>1, <1>2, Consts, DepthNat DEF AncestorsR, Ancestors
  <1> QED BY <1>1, <1>2, <1>3, <1>4 DEF IInv, CorrectP

LEMMA AbsInv == IInv /\ Abs => IInv'
  <1> SUFFICES ASSUME IInv, Abs PROVE IInv' OBVIOUS
  <1>1. /\ phase = "abs" /\ phase' = "scan" /\ curSp' = "clean" /\ stopSp' = "clean"
        /\ spok' = spok /\ start' = start /\ stop' = stop /\ ua' = ua /\ cur' = cur /\ result' = result
    BY DEF Abs, cfgv
  <1>2. cur = start /\ result = NoRes BY <1>1 DEF IInv
  <1>3. Passed' = Passed BY <1>1 DEF Passed, Ancestors, RankOf
  <1>4. AncestorsR(start)' = AncestorsR(start) BY <1>1 DEF AncestorsR, Ancestors
  <1>5. \A d \in Passed : spok[d] # "file" BY <1>1 DEF IInv
  <1> QED BY <1>1, <1>2, <1>3, <1>4, <1>5 DEF IInv, CorrectP

\* what does not change in Scan and StopTest
LEMMA Frame ==
  ASSUME spok' = spok, start' = start, stop' = stop, ua' = ua, cur' = cur
  PROVE  /\ Passed' = Passed /\ AncestorsR(start)' = AncestorsR(start) /\ Hits' = Hits
         /\ (\A m \in Hits : RankOf(m)' = RankOf(m)) /\ RankOf(cur)' = RankOf(cur)
         /\ Above(cur, stop)' = Above(cur, stop)
  BY DEF Passed, AncestorsR, Ancestors, Hits, Cands, Above, RankOf

\* no candidate holds a spokfile when the walk stands at cur, nothing nearer held one, and cur itself is out
LEMMA NoHits ==
  ASSUME IInv, phase # "done", cur = Root \/ Above(cur, stop) \/ (cur = stop /\ spok[cur] # "file")
  PROVE  Hits = {}
  <1> SUFFICES ASSUME NEW m \in Hits PROVE FALSE OBVIOUS
  <1>0. /\ ua \in Levels \cup {Root} /\ start \in Dirs /\ stop \in Dirs /\ cur \in AncestorsR(start)
        /\ \A d \in Passed : spok[d] # "file"
    BY DEF IInv
  <1>1. m \in Ancestors(start) /\ ~Above(m, stop) /\ spok[m] = "file" BY DEF Hits, Cands
  <1>2. m \in AncestorsR(start) BY <1>1 DEF AncestorsR
  <1>3. ~(RankOf(m) > RankOf(cur)) BY <1>0, <1>1 DEF Passed
  <1>4. RankOf(m) \in Int /\ RankOf(cur) \in Int BY <1>0, <1>2, ChainFacts
  <1>5. CASE RankOf(m) = RankOf(cur)
    <2>1. m = cur BY <1>5, <1>0, <1>2, ChainFacts
    <2>2. cur # Root BY <2>1, <1>1, Consts, DepthNat DEF Ancestors
    <2> QED BY <2>1, <2>2, <1>1
  <1>6. CASE RankOf(m) < RankOf(cur)
    <2>1. Above(m, cur) BY <1>6, <1>0, <1>2, ChainFacts
    <2>2. cur # Root BY <2>1, Consts, DepthNat DEF Above, Ancestors
    <2>3. cur \in Dirs /\ m \in Dirs \cup {Root}
      BY <2>2, <1>0, <1>1, Consts, DepthNat DEF AncestorsR, Ancestors
    <2>4. CASE Above(cur, stop)
      BY <2>1, <2>3, <2>4, <1>0, <1>1, AboveTrans
    <2>5. CASE cur = stop
      BY <2>1, <2>5, <1>1
    <2> QED BY <2>2, <2>4, <2>5
  <1> QED BY <1>3, <1>4, <1>5, <1>6

LEMMA ScanInv == IInv /\ Scan => IInv'
  <1> SUFFICES ASSUME IInv, Scan PROVE IInv' OBVIOUS
  <1>0. /\ phase = "scan" /\ spok' = spok /\ start' = start /\ stop' = stop /\ ua' = ua /\ cur' = cur
        /\ curSp' = curSp /\ stopSp' = stopSp
    BY DEF Scan, cfgv
  <1>a. /\ result = NoRes /\ \A d \in Passed : spok[d] # "file"
        /\ cur \in AncestorsR(start) /\ curSp = "clean" /\ stopSp = "clean"
        /\ spok \in [Dirs -> Kinds] /\ start \in Dirs /\ stop \in Dirs /\ ua \in Levels \cup {Root}
    BY <1>0 DEF IInv
  <1>b. /\ Passed' = Passed /\ AncestorsR(start)' = AncestorsR(start) /\ Hits' = Hits
        /\ (\A m \in Hits : RankOf(m)' = RankOf(m)) /\ RankOf(cur)' = RankOf(cur)
        /\ Above(cur, stop)' = Above(cur, stop)
    BY <1>0, Frame
  <1>1. CASE Above(cur, stop)
    <2>1. result' = NotFound /\ phase' = "done" BY <1>1, Fixed DEF Scan
    <2>2. Hits = {} BY <1>1, <1>0, NoHits
    <2>3. CorrectP' BY <2>1, <2>2, <1>b DEF CorrectP
    <2> QED BY <2>1, <2>3, <1>0, <1>a, <1>b DEF IInv
  <1>2. CASE ~Above(cur, stop) /\ cur # Root /\ spok[cur] = "file"
    <2>1. result' = cur /\ phase' = "done" BY <1>2, Fixed DEF Scan
    <2>2. cur \in Ancestors(start) BY <1>2, <1>a DEF AncestorsR
    <2>3. cur \in Hits BY <2>2, <1>2 DEF Hits, Cands
    <2>4. \A m \in Hits : RankOf(m) <= RankOf(cur)
      <3> SUFFICES ASSUME NEW m \in Hits PROVE RankOf(m) <= RankOf(cur) OBVIOUS
      <3>1. m \in Ancestors(start) /\ spok[m] = "file" BY DEF Hits, Cands
      <3>2. ~(RankOf(m) > RankOf(cur)) BY <3>1, <1>a DEF Passed
      <3>3. RankOf(m) \in Int /\ RankOf(cur) \in Int BY <3>1, <1>a, ChainFacts DEF AncestorsR
      <3> QED BY <3>2, <3>3
    <2>5. CorrectP' BY <2>1, <2>3, <2>4, <1>b DEF CorrectP
    <2> QED BY <2>1, <2>5, <1>0, <1>a, <1>b DEF IInv
  <1>3. CASE ~Above(cur, stop) /\ ~(cur # Root /\ spok[cur] = "file")
    <2>1. result' = result /\ phase' = "stoptest" BY <1>3, Fixed DEF Scan
    <2>2. CorrectP' BY <2>1 DEF CorrectP
    <2>3. cur # Root BY <1>3, <1>a, Consts, DepthNat DEF Above, Ancestors
    <2> QED BY <2>1, <2>2, <2>3, <1>0, <1>a, <1>b, <1>3 DEF IInv
  <1> QED BY <1>1, <1>2, <1>3

LEMMA StopTestInv == IInv /\ StopTest => IInv'
  <1> SUFFICES ASSUME IInv, StopTest PROVE IInv' OBVIOUS
  <1>0. /\ phase = "stoptest" /\ spok' = spok /\ start' = start /\ stop' = stop /\ ua' = ua /\ cur' = cur
        /\ curSp' = curSp /\ stopSp' = stopSp
    BY DEF StopTest, cfgv
  <1>a. /\ result = NoRes /\ \A d \in Passed : spok[d] # "file"
        /\ cur \in AncestorsR(start) /\ curSp = "clean" /\ stopSp = "clean"
        /\ spok \in [Dirs -> Kinds] /\ start \in Dirs /\ stop \in Dirs /\ ua \in Levels \cup {Root}
        /\ cur # Root /\ ~Above(cur, stop) /\ spok[cur] # "file"
    BY <1>0 DEF IInv
  <1>b. /\ Passed' = Passed /\ AncestorsR(start)' = AncestorsR(start) /\ Hits' = Hits
        /\ (\A m \in Hits : RankOf(m)' = RankOf(m)) /\ RankOf(cur)' = RankOf(cur)
        /\ Above(cur, stop)' = Above(cur, stop)
    BY <1>0, Frame
  <1>c. SameString <=> cur = stop BY <1>a DEF SameString
  <1>d. ~NoParent
    BY <1>a, Consts, DepthNat DEF NoParent, DirOf, Parent, AncestorsR, Ancestors
  <1>1. CASE cur = stop
    <2>1. result' = NotFound /\ phase' = "done" BY <1>1, <1>c DEF StopTest
    <2>2. Hits = {} BY <1>1, <1>0, <1>a, NoHits
    <2>3. CorrectP' BY <2>1, <2>2, <1>b DEF CorrectP
    <2> QED BY <2>1, <2>3, <1>0, <1>a, <1>b DEF IInv
  <1>2. CASE cur # stop
    <2>1. result' = result /\ phase' = "up" BY <1>2, <1>c, <1>d DEF StopTest
    <2>2. CorrectP' BY <2>1 DEF CorrectP
    <2> QED BY <2>1, <2>2, <1>0, <1>a, <1>b DEF IInv
  <1> QED BY <1>1, <1>2

LEMMA UpInv == IInv /\ Up => IInv'
  <1> SUFFICES ASSUME IInv, Up PROVE IInv' OBVIOUS
  <1>0. /\ phase = "up" /\ phase' = "scan" /\ spok' = spok /\ start' = start /\ stop' = stop /\ ua' = ua
        /\ result' = result /\ stopSp' = stopSp /\ cur' = DirOf[1] /\ curSp' = DirOf[2]
    BY DEF Up, cfgv
  <1>a. /\ result = NoRes /\ \A d \in Passed : spok[d] # "file"
        /\ cur \in AncestorsR(start) /\ curSp = "clean" /\ stopSp = "clean"
        /\ spok \in [Dirs -> Kinds] /\ start \in Dirs /\ stop \in Dirs /\ ua \in Levels \cup {Root}
        /\ cur # Root /\ spok[cur] # "file"
    BY <1>0 DEF IInv
  <1>1. DirOf = <<Parent(cur), "clean">> BY <1>a DEF DirOf
  <1>2. cur' = Parent(cur) /\ curSp' = "clean" BY <1>0, <1>1
  <1>3. cur \in Ancestors(start) BY <1>a DEF AncestorsR
  <1>4. Parent(cur) \in AncestorsR(start) /\ RankOf(Parent(cur)) = RankOf(cur) - 1
    BY <1>3, <1>a, ChainFacts
  <1>5. AncestorsR(start)' = AncestorsR(start) /\ Ancestors(start)' = Ancestors(start)
    BY <1>0 DEF AncestorsR, Ancestors
  <1>6. \A d \in Passed' : spok[d] # "file"
    <2> SUFFICES ASSUME NEW d \in Passed' PROVE spok[d] # "file" OBVIOUS
    <2>1. d \in Ancestors(start) /\ RankOf(d) > RankOf(Parent(cur))
      BY <1>0, <1>2, <1>5 DEF Passed, RankOf, Ancestors
    <2>2. RankOf(d) \in Int /\ RankOf(cur) \in Int /\ d \in AncestorsR(start)
      BY <2>1, <1>a, ChainFacts DEF AncestorsR
    <2>3. RankOf(d) > RankOf(cur) \/ RankOf(d) = RankOf(cur) BY <2>1, <2>2, <1>4
    <2>4. CASE RankOf(d) > RankOf(cur) BY <2>4, <2>1, <1>a DEF Passed
    <2>5. CASE RankOf(d) = RankOf(cur)
      <3>1. d = cur BY <2>5, <2>2, <1>a, ChainFacts
      <3> QED BY <3>1, <1>a
    <2> QED BY <2>3, <2>4, <2>5
  <1>7. CorrectP' BY <1>0 DEF CorrectP
  <1> QED BY <1>0, <1>2, <1>4, <1>5, <1>6, <1>7, <1>a DEF IInv

LEMMA StutterInv == IInv /\ UNCHANGED vars => IInv'
  BY DEF IInv, vars, Passed, CorrectP, Hits, Cands, Ancestors, AncestorsR, Above, RankOf

THEOREM Safety == Spec => []IInv
  <1>1. Init => IInv BY InitInv
  <1>2. IInv /\ [Next]_vars => IInv'
    BY AbsInv, ScanInv, StopTestInv, UpInv, StutterInv DEF Next, Stutter
  <1> QED BY <1>1, <1>2, PTL DEF Spec

THEOREM CorrectForEveryDepth == Spec => []CorrectP
  BY Safety, PTL DEF IInv

\* nothing above the stop directory is ever returned
THEOREM NeverAbove == Spec => []NeverAboveStop
  <1>1. IInv => NeverAboveStop
    BY Consts, DepthNat DEF IInv, NeverAboveStop, CorrectP, Hits, Cands
  <1> QED BY <1>1, Safety, PTL

\* ---------------------------------------------------------------------------------------------------------------------
\* Termination for every depth, as a ranking argument: Rank is a natural number that every step other than stuttering
\* strictly decreases, and while phase # "done" the action of that phase is enabled (its guard is the phase alone); under the
\* weak fairness of Spec the walk therefore reaches "done".  (TLC checks the temporal property Terminates itself for
\* small depths; this removes the bound from the decreasing-measure half of the argument.)
PhaseRank == CASE phase = "abs" -> 4 [] phase = "scan" -> 3 [] phase = "stoptest" -> 2 [] phase = "up" -> 1 [] OTHER -> 0
Rank == IF phase = "done" THEN 0 ELSE 4 * (RankOf(cur) + 1) + PhaseRank

LEMMA RankNat == IInv => Rank \in Nat
  <1> SUFFICES ASSUME IInv PROVE Rank \in Nat OBVIOUS
  <1>1. RankOf(cur) \in Int /\ RankOf(cur) >= -1 BY ChainFacts DEF IInv
  <1> QED BY <1>1 DEF Rank, PhaseRank

THEOREM RankDecreases == IInv /\ IInv' /\ [Next]_vars => (Rank' < Rank \/ UNCHANGED vars)
  <1> SUFFICES ASSUME IInv, IInv', [Next]_vars PROVE Rank' < Rank \/ UNCHANGED vars OBVIOUS
  <1>0. RankOf(cur) \in Int /\ RankOf(cur) >= -1 BY ChainFacts DEF IInv
  <1>1. CASE Abs
    <2>1. phase = "abs" /\ phase' = "scan" /\ cur' = cur /\ ua' = ua BY <1>1 DEF Abs, cfgv
    <2>2. RankOf(cur)' = RankOf(cur) BY <2>1 DEF RankOf
    <2> QED BY <2>1, <2>2, <1>0 DEF Rank, PhaseRank
  <1>2. CASE Scan
    <2>1. phase = "scan" /\ cur' = cur /\ ua' = ua /\ phase' \in {"done", "stoptest"}
      BY <1>2, Fixed DEF Scan, cfgv
    <2>2. RankOf(cur)' = RankOf(cur) BY <2>1 DEF RankOf
    <2> QED BY <2>1, <2>2, <1>0 DEF Rank, PhaseRank
  <1>3. CASE StopTest
    <2>1. phase = "stoptest" /\ cur' = cur /\ ua' = ua /\ phase' \in {"done", "up"}
      BY <1>3 DEF StopTest, cfgv
    <2>2. RankOf(cur)' = RankOf(cur) BY <2>1 DEF RankOf
    <2> QED BY <2>1, <2>2, <1>0 DEF Rank, PhaseRank
  <1>4. CASE Up
    <2>1. phase = "up" /\ phase' = "scan" /\ cur' = DirOf[1] /\ ua' = ua BY <1>4 DEF Up, cfgv
    <2>2. curSp = "clean" /\ cur # Root /\ cur \in AncestorsR(start) /\ ua \in Levels \cup {Root} /\ start \in Dirs
      BY <2>1 DEF IInv
    <2>3. DirOf = <<Parent(cur), "clean">> BY <2>2 DEF DirOf
    <2>4. cur' = Parent(cur) BY <2>1, <2>3
    <2>5. RankOf(Parent(cur)) = RankOf(cur) - 1 BY <2>2, ChainFacts DEF AncestorsR
    <2>6. RankOf(cur)' = RankOf(Parent(cur)) BY <2>1, <2>4 DEF RankOf
    <2> QED BY <2>1, <2>5, <2>6, <1>0 DEF Rank, PhaseRank
  <1>5. CASE Stutter \/ UNCHANGED vars
    BY <1>5 DEF Stutter
  <1> QED BY <1>1, <1>2, <1>3, <1>4, <1>5 DEF Next

\* while the walk has not finished, the action of the current phase can be taken: its guard is the phase alone
LEMMA PhaseGuards == IInv /\ phase # "done" => phase \in {"abs", "scan", "stoptest", "up"}
  BY DEF IInv
=============================================================================
