----------------------------- MODULE FindProof -----------------------------
(* TLAPS proof that the repaired walk (Variant = "fixed") of Find.tla satisfies CorrectP and        *)
(* NeverAboveStop for EVERY depth of the directory chain and every set of path spellings: the       *)
(* model checker covers Depth <= 3 exhaustively, this removes the bound.  CorrectP is Correct        *)
(* without CHOOSE; TLC checks `CorrectAgree` (the two formulations agree) in every bounded run.      *)
(* Checked with: tlapm --threads 16 FindProof.tla   (tools/check C17 --tier thorough runs it)        *)
EXTENDS Find, TLAPS

ASSUME DepthNat == Depth \in Nat
ASSUME Fixed == Variant = "fixed"

\* directories already left behind on the way from start up to cur
Passed == IF cur = start THEN {}
          ELSE IF start = U THEN {U}
          ELSE IF cur = Root THEN 0..start ELSE (cur + 1)..start
OnChain == cur = start \/ cur = Root \/ (start \in Levels /\ cur \in 0..start)

IInv ==
  /\ spok \in [Dirs -> Kinds] /\ start \in Dirs /\ stop \in Dirs
  /\ phase \in {"abs", "scan", "stoptest", "up", "done"}
  /\ OnChain
  /\ phase = "abs" => cur = start
  /\ phase # "abs" => curSp = "clean" /\ stopSp = "clean"
  /\ phase # "done" => /\ result = NoRes
                       /\ \A d \in Passed : spok[d] # "file" /\ d # stop
  /\ phase \in {"stoptest", "up"} => (cur = Root \/ spok[cur] # "file")
  /\ phase = "up" => cur # stop /\ cur # Root
  /\ CorrectP

LEMMA Consts == /\ U = -1 /\ Root = -2 /\ NotFound = -7 /\ NoRes = -8
                /\ Levels = 0..Depth /\ Dirs = (0..Depth) \cup {-1}
  BY DEF U, Root, NotFound, NoRes, Levels, Dirs

LEMMA InitInv == Init => IInv
  <1> SUFFICES ASSUME Init PROVE IInv OBVIOUS
  <1>1. phase = "abs" /\ cur = start /\ result = NoRes BY Fixed DEF Init
  <1>2. spok \in [Dirs -> Kinds] /\ start \in Dirs /\ stop \in Dirs BY DEF Init
  <1>3. Passed = {} BY <1>1 DEF Passed
  <1> QED BY <1>1, <1>2, <1>3 DEF IInv, OnChain, CorrectP

LEMMA AbsInv == IInv /\ Abs => IInv'
  <1> SUFFICES ASSUME IInv, Abs PROVE IInv' OBVIOUS
  <1>1. /\ phase = "abs" /\ phase' = "scan" /\ curSp' = "clean" /\ stopSp' = "clean"
        /\ spok' = spok /\ start' = start /\ stop' = stop /\ cur' = cur /\ result' = result
    BY DEF Abs, cfgv
  <1>2. cur = start /\ result = NoRes BY <1>1 DEF IInv
  <1>3. Passed' = {} BY <1>1, <1>2 DEF Passed
  <1> QED BY <1>1, <1>2, <1>3 DEF IInv, OnChain, CorrectP

LEMMA ScanInv == IInv /\ Scan => IInv'
  <1> SUFFICES ASSUME IInv, Scan PROVE IInv' OBVIOUS
  <1>0. /\ phase = "scan" /\ spok' = spok /\ start' = start /\ stop' = stop /\ cur' = cur
        /\ curSp' = curSp /\ stopSp' = stopSp
    BY DEF Scan, cfgv
  <1>a. /\ result = NoRes /\ \A d \in Passed : spok[d] # "file" /\ d # stop
        /\ OnChain /\ curSp = "clean" /\ stopSp = "clean"
        /\ spok \in [Dirs -> Kinds] /\ start \in Dirs /\ stop \in Dirs
    BY <1>0 DEF IInv
  <1>b. Passed' = Passed /\ OnChain' = OnChain BY <1>0 DEF Passed, OnChain
  <1>1. CASE cur # Root /\ spok[cur] = "file"
    <2>1. result' = cur /\ phase' = "done" BY <1>1, Fixed DEF Scan
    <2>2. CorrectP'
      <3> USE Consts, DepthNat
      <3>1. CASE Constrained
        <4>1. start \in Levels /\ stop \in Levels /\ stop <= start BY <3>1 DEF Constrained
        <4>2. cur \in stop..start
          BY <4>1, <1>a, <1>1 DEF OnChain, Passed
        <4>3. cur \in Hits BY <4>2, <1>1 DEF Hits
        <4>4. \A m \in Hits : m <= cur
          BY <4>1, <4>2, <1>a DEF Hits, Passed, OnChain
        <4> QED BY <4>1, <4>3, <4>4, <2>1, <1>0, <3>1 DEF CorrectP, Constrained, Hits
      <3>2. CASE ~Constrained /\ start \in Levels /\ stop \in Levels
        <4>1. cur \in Ancestors(start) BY <3>2, <1>a, <1>1 DEF OnChain, Ancestors
        <4> QED BY <4>1, <3>2, <2>1, <1>0, <1>1 DEF CorrectP, Constrained, Ancestors
      <3>3. CASE ~(start \in Levels /\ stop \in Levels)
        <4> DEFINE H == {l \in Ancestors(start) : spok[l] = "file"}
        <4>0. ~Constrained BY <3>3 DEF Constrained
        <4>1. cur \in H BY <1>a, <1>1 DEF OnChain, Ancestors
        <4>2. \A m \in H : m <= cur BY <1>a, <1>1 DEF OnChain, Ancestors, Passed
        <4> QED BY <4>0, <4>1, <4>2, <3>3, <2>1, <1>0 DEF CorrectP, Constrained, Ancestors
      <3> QED BY <3>1, <3>2, <3>3
    <2> QED BY <2>1, <2>2, <1>0, <1>a, <1>b DEF IInv
  <1>2. CASE ~(cur # Root /\ spok[cur] = "file")
    <2>1. result' = result /\ phase' = "stoptest" BY <1>2, Fixed DEF Scan
    <2>2. CorrectP' BY <2>1 DEF CorrectP
    <2> QED BY <2>1, <2>2, <1>0, <1>a, <1>b, <1>2 DEF IInv
  <1> QED BY <1>1, <1>2

LEMMA StopTestInv == IInv /\ StopTest => IInv'
  <1> SUFFICES ASSUME IInv, StopTest PROVE IInv' OBVIOUS
  <1>0. /\ phase = "stoptest" /\ spok' = spok /\ start' = start /\ stop' = stop /\ cur' = cur
        /\ curSp' = curSp /\ stopSp' = stopSp
    BY DEF StopTest, cfgv
  <1>a. /\ result = NoRes /\ \A d \in Passed : spok[d] # "file" /\ d # stop
        /\ OnChain /\ curSp = "clean" /\ stopSp = "clean"
        /\ spok \in [Dirs -> Kinds] /\ start \in Dirs /\ stop \in Dirs
        /\ (cur = Root \/ spok[cur] # "file")
    BY <1>0 DEF IInv
  <1>b. Passed' = Passed /\ OnChain' = OnChain BY <1>0 DEF Passed, OnChain
  <1>c. SameString <=> cur = stop BY <1>a DEF SameString
  <1>d. NoParent <=> cur = Root
    BY <1>a, Consts, DepthNat DEF NoParent, DirOf, Parent, OnChain
  <1>1. CASE cur = stop \/ cur = Root
    <2>1. result' = NotFound /\ phase' = "done" BY <1>1, <1>c, <1>d DEF StopTest
    <2>2. CorrectP'
      <3> USE Consts, DepthNat
      <3>1. CASE Constrained
        <4>1. start \in Levels /\ stop \in Levels /\ stop <= start BY <3>1 DEF Constrained
        <4>2. Hits = {}
          BY <4>1, <1>a, <1>1 DEF Hits, Passed, OnChain
        <4> QED BY <4>2, <2>1, <1>0, <3>1 DEF CorrectP, Constrained, Hits
      <3>2. CASE ~Constrained /\ start \in Levels /\ stop \in Levels
        BY <3>2, <2>1, <1>0 DEF CorrectP, Constrained
      <3>3. CASE ~(start \in Levels /\ stop \in Levels)
        <4>0. ~Constrained BY <3>3 DEF Constrained
        <4>1. {l \in Ancestors(start) : spok[l] = "file"} = {}
          BY <3>3, <1>a, <1>1 DEF Ancestors, Passed, OnChain
        <4> QED BY <4>0, <4>1, <3>3, <2>1, <1>0 DEF CorrectP, Constrained, Ancestors
      <3> QED BY <3>1, <3>2, <3>3
    <2> QED BY <2>1, <2>2, <1>0, <1>a, <1>b DEF IInv
  <1>2. CASE ~(cur = stop \/ cur = Root)
    <2>1. result' = result /\ phase' = "up" BY <1>2, <1>c, <1>d DEF StopTest
    <2>2. CorrectP' BY <2>1 DEF CorrectP
    <2> QED BY <2>1, <2>2, <1>0, <1>a, <1>b, <1>2 DEF IInv
  <1> QED BY <1>1, <1>2

LEMMA UpInv == IInv /\ Up => IInv'
  <1> SUFFICES ASSUME IInv, Up PROVE IInv' OBVIOUS
  <1> USE Consts, DepthNat
  <1>0. /\ phase = "up" /\ phase' = "scan" /\ spok' = spok /\ start' = start /\ stop' = stop
        /\ result' = result /\ stopSp' = stopSp /\ cur' = DirOf[1] /\ curSp' = DirOf[2]
    BY DEF Up, cfgv
  <1>a. /\ result = NoRes /\ \A d \in Passed : spok[d] # "file" /\ d # stop
        /\ OnChain /\ curSp = "clean" /\ stopSp = "clean"
        /\ spok \in [Dirs -> Kinds] /\ start \in Dirs /\ stop \in Dirs
        /\ spok[cur] # "file" /\ cur # stop /\ cur # Root
    BY <1>0 DEF IInv
  <1>1. DirOf = <<Parent(cur), "clean">> BY <1>a DEF DirOf
  <1>2. cur' = Parent(cur) /\ curSp' = "clean" BY <1>0, <1>1
  <1>3. OnChain' BY <1>2, <1>0, <1>a DEF OnChain, Parent
  <1>4. \A d \in Passed' : d \in Passed \/ d = cur
    BY <1>2, <1>0, <1>a DEF Passed, OnChain, Parent
  <1>5. \A d \in Passed' : spok[d] # "file" /\ d # stop BY <1>4, <1>a
  <1>6. CorrectP' BY <1>0 DEF CorrectP
  <1> QED BY <1>0, <1>2, <1>3, <1>5, <1>6, <1>a DEF IInv

LEMMA StutterInv == IInv /\ UNCHANGED vars => IInv'
  BY DEF IInv, vars, OnChain, Passed, CorrectP, Constrained, Hits, Ancestors

THEOREM Safety == Spec => []IInv
  <1>1. Init => IInv BY InitInv
  <1>2. IInv /\ [Next]_vars => IInv'
    BY AbsInv, ScanInv, StopTestInv, UpInv, StutterInv DEF Next, Stutter
  <1> QED BY <1>1, <1>2, PTL DEF Spec

THEOREM CorrectForEveryDepth == Spec => []CorrectP
  BY Safety, PTL DEF IInv

\* the walk never inspects a directory above the stop directory
THEOREM NeverAbove == Spec => []NeverAboveStop
  <1>1. IInv => NeverAboveStop
    BY Consts, DepthNat DEF IInv, NeverAboveStop, Constrained, OnChain, Passed
  <1> QED BY <1>1, Safety, PTL

\* ---------------------------------------------------------------------------------------------------------------------
\* Termination for every depth, as a ranking argument: Rank is a natural number that every step other than stuttering
\* strictly decreases, and while phase # "done" the action of that phase is enabled (its guard is the phase alone); under the
\* weak fairness of Spec the walk therefore reaches "done".  (TLC checks the temporal property Terminates itself for
\* Depth <= 3; this removes the bound from the decreasing-measure half of the argument.)
Dist(d) == IF d = Root THEN 0 ELSE IF d = U THEN 1 ELSE d + 1
PhaseRank == CASE phase = "abs" -> 4 [] phase = "scan" -> 3 [] phase = "stoptest" -> 2 [] phase = "up" -> 1 [] OTHER -> 0
Rank == IF phase = "done" THEN 0 ELSE 4 * Dist(cur) + PhaseRank

LEMMA RankNat == IInv => Rank \in Nat
  BY Consts, DepthNat DEF IInv, OnChain, Rank, Dist, PhaseRank

THEOREM RankDecreases == IInv /\ IInv' /\ [Next]_vars => (Rank' < Rank \/ UNCHANGED vars)
  <1> SUFFICES ASSUME IInv, IInv', [Next]_vars PROVE Rank' < Rank \/ UNCHANGED vars OBVIOUS
  <1> USE Consts, DepthNat
  <1>0. cur \in Int /\ (cur = Root \/ cur = U \/ cur \in 0..Depth)
    BY DEF IInv, OnChain
  <1>1. CASE Abs
    BY <1>1, <1>0 DEF Abs, cfgv, Rank, Dist, PhaseRank
  <1>2. CASE Scan
    <2>1. phase = "scan" /\ cur' = cur /\ phase' \in {"done", "stoptest"}
      BY <1>2, Fixed DEF Scan, cfgv
    <2> QED BY <2>1, <1>0 DEF Rank, Dist, PhaseRank
  <1>3. CASE StopTest
    <2>1. phase = "stoptest" /\ cur' = cur /\ phase' \in {"done", "up"}
      BY <1>3 DEF StopTest, cfgv
    <2> QED BY <2>1, <1>0 DEF Rank, Dist, PhaseRank
  <1>4. CASE Up
    <2>1. phase = "up" /\ phase' = "scan" /\ cur' = DirOf[1] BY <1>4 DEF Up
    <2>2. curSp = "clean" /\ cur # Root BY <2>1 DEF IInv
    <2>3. DirOf = <<Parent(cur), "clean">> BY <2>2 DEF DirOf
    <2>4. cur' = Parent(cur) BY <2>1, <2>3
    <2>5. Dist(cur') + 1 <= Dist(cur) BY <2>4, <2>2, <1>0 DEF Dist, Parent
    <2>6. Dist(cur) \in Nat /\ Dist(cur') \in Nat BY <2>4, <2>2, <1>0 DEF Dist, Parent
    <2> QED BY <2>1, <2>5, <2>6 DEF Rank, PhaseRank
  <1>5. CASE Stutter \/ UNCHANGED vars
    BY <1>5 DEF Stutter
  <1> QED BY <1>1, <1>2, <1>3, <1>4, <1>5 DEF Next

\* while the walk has not finished, the action of the current phase can be taken: its guard is the phase alone
LEMMA PhaseGuards == IInv /\ phase # "done" => phase \in {"abs", "scan", "stoptest", "up"}
  BY DEF IInv
=============================================================================
