-------------------------------- MODULE Glob --------------------------------
(* C05 -- what a glob pattern of a spokfile denotes: exactly the regular files under the       *)
(* spokfile's directory whose relative path matches, minus entries whose relative path begins   *)
(* with a dot.  Declarative semantics (no walk order, no library): a name is a sequence of      *)
(* one-character strings, a path a sequence of names, a pattern a sequence of segment patterns, *)
(* a segment pattern a sequence of atoms                                                        *)
(*    [k |-> "lit", c |-> "a"] | [k |-> "star"] | [k |-> "alt", alts |-> <<name, ...>>]          *)
(*    | [k |-> "any"] (the `?`) | [k |-> "class", set |-> <<characters>>] (`[abc]`, `[a-c]`)     *)
(* and the whole-segment `**` is the one-atom segment <<[k |-> "dstar"]>>.                       *)
(* The matching rules are those of the library spok uses (doublestar): `*` matches any run of    *)
(* characters of one segment (a leading dot included), `**` as a whole segment matches zero or   *)
(* more segments, {a,b} is alternation.                                                          *)
(*                                                                                               *)
(* The module is used three ways: (1) model checking over every tree built from a pool of paths  *)
(* x every pattern of a pool (frame properties of the semantics itself); (2) as the oracle: TLC   *)
(* evaluates Conforms_C05 on records of what the real expansion returned.                        *)
EXTENDS Integers, Sequences, FiniteSets, TLC, Json, SequencesExt, FiniteSetsExt

Pool == JsonDeserialize("globpool.json")      \* [paths |-> <<[s |-> "a.go", p |-> <<name>>]>>, pats |-> <<[s, p]>>]
SeqRange(s) == {s[i] : i \in DOMAIN s}

RECURSIVE SegMatch(_, _)
SegMatch(name, pat) ==
  IF pat = <<>> THEN name = <<>>
  ELSE LET a == Head(pat) IN
    CASE a.k = "lit"  -> name # <<>> /\ Head(name) = a.c /\ SegMatch(Tail(name), Tail(pat))
      [] a.k = "star" -> \E i \in 0..Len(name) : SegMatch(SubSeq(name, i + 1, Len(name)), Tail(pat))
      [] a.k = "any"  -> name # <<>> /\ SegMatch(Tail(name), Tail(pat))                       \* ?
      [] a.k = "class" -> name # <<>> /\ Head(name) \in SeqRange(a.set) /\ SegMatch(Tail(name), Tail(pat))   \* [abc], [a-c] expanded
      [] a.k = "alt"  -> \E j \in DOMAIN a.alts :
                            LET alt == a.alts[j] IN
                            /\ Len(alt) <= Len(name) /\ SubSeq(name, 1, Len(alt)) = alt
                            /\ SegMatch(SubSeq(name, Len(alt) + 1, Len(name)), Tail(pat))
      [] OTHER -> FALSE

IsDStar(seg) == Len(seg) = 1 /\ seg[1].k = "dstar"

RECURSIVE PathMatch(_, _)
PathMatch(path, pat) ==
  IF pat = <<>> THEN path = <<>>
  ELSE IF IsDStar(Head(pat))
       THEN \E i \in 0..Len(path) : PathMatch(SubSeq(path, i + 1, Len(path)), Tail(pat))
       ELSE path # <<>> /\ SegMatch(Head(path), Head(pat)) /\ PathMatch(Tail(path), Tail(pat))

\* the relative path begins with a dot
Hidden(path) == path # <<>> /\ Head(path) # <<>> /\ Head(Head(path)) = "."

\* tree: set of regular-file paths
Expand(tree, pat) == {p \in tree : PathMatch(p, pat) /\ ~Hidden(p)}

IsPrefixPath(d, p) == Len(d) < Len(p) /\ SubSeq(p, 1, Len(d)) = d
--------------------------------------------------------------------------------
\* (1) the semantics over every tree of the pool x every pattern, as a (stateless) transition system
VARIABLES tree, pat
PoolPaths == {Pool.paths[i].p : i \in DOMAIN Pool.paths}
PoolPats  == {Pool.pats[i].p : i \in DOMAIN Pool.pats}
Init == tree \in SUBSET PoolPaths /\ pat \in PoolPats
\* the environment adds or removes one file
Next == \E p \in PoolPaths : tree' = (IF p \in tree THEN tree \ {p} ELSE tree \cup {p}) /\ UNCHANGED pat
Spec == Init /\ [][Next]_<<tree, pat>>

Sound    == Expand(tree, pat) \subseteq tree
NoHidden == \A p \in Expand(tree, pat) : ~Hidden(p)
\* whether a file is denoted depends on that file alone: no other file, hidden file or directory changes it
FileLocal == \A p \in tree : (p \in Expand(tree, pat)) = (p \in Expand({p}, pat))
\* action form: adding or removing a file changes the expansion by at most that file
Frame == [][\A p \in PoolPaths : (p \in tree) = (p \in tree') =>
                 ((p \in Expand(tree, pat)) = (p \in Expand(tree', pat)))]_<<tree, pat>>

--------------------------------------------------------------------------------
\* (2) judge of recorded real expansions
\* record: [tree: <<path>>, pat: pattern, got1: <<path>>, got2: <<path>>, outcome]
Recs == ndJsonDeserialize("recs.ndjson")
IsDirOf(t, d) == \E p \in t : IsPrefixPath(d, p)
Conforms_C05(r) ==
  LET t == SeqRange(r.tree)
      g1 == SeqRange(r.got1)  g2 == SeqRange(r.got2)
      files(g) == g \cap t
  IN /\ r.outcome = "ok"
     /\ files(g1) = Expand(t, r.pat)                         \* no matching file omitted, no other file included
     /\ \A p \in g1 : p \in t \/ IsDirOf(t, p) \/ p = <<>>    \* anything else returned is a directory of the tree (ignored by hashing)
     /\ files(g2) = files(g1)                                 \* same on every expansion of an unchanged tree
JudgeOut == JsonSerialize("verdict.json",
   [Conforms_C05 |-> SetToSeq({i \in DOMAIN Recs : ~Conforms_C05(Recs[i])}),
    n |-> Len(Recs),
    nNonEmpty |-> Cardinality({i \in DOMAIN Recs : Expand(SeqRange(Recs[i].tree), Recs[i].pat) # {}}),
    nHiddenMatch |-> Cardinality({i \in DOMAIN Recs : \E p \in SeqRange(Recs[i].tree) : Hidden(p) /\ PathMatch(p, Recs[i].pat)})])
================================================================================
