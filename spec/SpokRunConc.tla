----------------------------- MODULE SpokRunConc -----------------------------
(* BEYOND THE LISTED PROPERTIES: two spok invocations running AT THE SAME TIME in one project.      *)
(* C01 C02 C10 C14 speak about sequences of invocations; nothing in the list speaks about          *)
(* overlapping ones, and no registered check depends on this module.  It extends the protocol       *)
(* model SpokRun (variant "wal", the repaired code) from one invocation slot to a set of processes   *)
(* and asks the question C01 asks -- is a task ever skipped although its inputs differ from those   *)
(* of its last success? -- for interleavings of the same named steps:                               *)
(*    Begin -> Load -> Decide -> (Skip | Invalidate -> Exec -> Persist)                             *)
(* The point of interest is the grain of the cache write: cache.Dump serialises the WHOLE           *)
(* in-memory map of the writing process (Write = "wholemap"), so a process that loaded the cache     *)
(* earlier writes back what it loaded for every task it did not run itself.  Write = "rmw" is a      *)
(* hypothetical design in which a write is an atomic read-modify-write of the one entry (a lock      *)
(* around load + set + dump); it is here to show which grain would be enough.                        *)
(* Files are edited only while no invocation is running (so the effect is not the separate question  *)
(* of editing inputs under a running task).  One task per invocation; every task has one input file  *)
(* and the digest is the ideal one (the file's content).                                             *)
(* tools/concexplore model-checks the module, and replays the counterexample TLC finds for           *)
(* "wholemap" in the real code: two goroutines each running SpokFile.Run, stepped from hook point    *)
(* to hook point (the blocking hook is the scheduler gate).                                          *)
EXTENDS Integers, Sequences, FiniteSets, TLC, Json

CONSTANTS Procs,      \* e.g. {1, 2}
          Write,      \* "wholemap" | "rmw"
          MaxInv,     \* invocations started in a behaviour
          MaxEdits

Tasks    == {"A", "B"}
FileOf   == [t \in Tasks |-> IF t = "A" THEN "a" ELSE "b"]
Files    == {"a", "b"}
Contents == {0, 1}
None     == 9

VARIABLES fs,      \* [Files -> Contents]
          disk,    \* the cache file: [Tasks -> Contents \cup {None}]
          lastOk,  \* ghost: the input of the task's last successful completion
          pc, task, mem, dig,   \* per process
          ninv, nedits,
          viol,    \* ghost: a skip was decided although the input differs from the last success
          hist     \* the steps taken, for the replay
vars == <<fs, disk, lastOk, pc, task, mem, dig, ninv, nedits, viol, hist>>

NoMap == [t \in Tasks |-> None]
AllIdle == \A p \in Procs : pc[p] = "idle"

Init == /\ fs = [f \in Files |-> 0]
        /\ disk = NoMap /\ lastOk = NoMap
        /\ pc = [p \in Procs |-> "idle"] /\ task = [p \in Procs |-> "A"]
        /\ mem = [p \in Procs |-> NoMap] /\ dig = [p \in Procs |-> None]
        /\ ninv = 0 /\ nedits = 0 /\ viol = FALSE /\ hist = <<>>

Log(e) == hist' = Append(hist, e)

Edit(f, c) == /\ AllIdle /\ nedits < MaxEdits /\ fs[f] # c
              /\ fs' = [fs EXCEPT ![f] = c] /\ nedits' = nedits + 1
              /\ Log([op |-> "edit", f |-> f, c |-> c, p |-> 0, t |-> ""])
              /\ UNCHANGED <<disk, lastOk, pc, task, mem, dig, ninv, viol>>

Begin(p, t) == /\ pc[p] = "idle" /\ ninv < MaxInv
               /\ pc' = [pc EXCEPT ![p] = "load"] /\ task' = [task EXCEPT ![p] = t] /\ ninv' = ninv + 1
               /\ Log([op |-> "begin", p |-> p, t |-> t, f |-> "", c |-> 0])
               /\ UNCHANGED <<fs, disk, lastOk, mem, dig, nedits, viol>>

\* cache.Load: the whole file into memory
Load(p) == /\ pc[p] = "load"
           /\ mem' = [mem EXCEPT ![p] = disk] /\ pc' = [pc EXCEPT ![p] = "decide"]
           /\ Log([op |-> "load", p |-> p, t |-> task[p], f |-> "", c |-> 0])
           /\ UNCHANGED <<fs, disk, lastOk, task, dig, ninv, nedits, viol>>

\* hash the input, compare with the digest in memory
Decide(p) == /\ pc[p] = "decide"
             /\ LET t == task[p]  d == fs[FileOf[t]] IN
                IF mem[p][t] = d
                THEN /\ pc' = [pc EXCEPT ![p] = "idle"]                    \* skipped
                     /\ viol' = (viol \/ lastOk[t] # d)
                     /\ Log([op |-> "skip", p |-> p, t |-> t, f |-> "", c |-> 0])
                     /\ UNCHANGED dig
                ELSE /\ pc' = [pc EXCEPT ![p] = "invalidate"] /\ dig' = [dig EXCEPT ![p] = d]
                     /\ Log([op |-> "decide", p |-> p, t |-> t, f |-> "", c |-> 0])
                     /\ UNCHANGED viol
             /\ UNCHANGED <<fs, disk, lastOk, task, mem, ninv, nedits>>

\* one write of the cache file with entry t set to v, in the grain of the variant
WriteBack(p, t, v) ==
  /\ mem' = [mem EXCEPT ![p] = [@ EXCEPT ![t] = v]]
  /\ disk' = IF Write = "wholemap" THEN [mem[p] EXCEPT ![t] = v] ELSE [disk EXCEPT ![t] = v]

\* forget the stored digest before the commands start (only if there is one)
Invalidate(p) == /\ pc[p] = "invalidate"
                 /\ IF mem[p][task[p]] # None THEN WriteBack(p, task[p], None) ELSE UNCHANGED <<mem, disk>>
                 /\ pc' = [pc EXCEPT ![p] = "exec"]
                 /\ Log([op |-> "invalidate", p |-> p, t |-> task[p], f |-> "", c |-> 0])
                 /\ UNCHANGED <<fs, lastOk, task, dig, ninv, nedits, viol>>

\* the commands run and succeed
Exec(p) == /\ pc[p] = "exec"
           /\ lastOk' = [lastOk EXCEPT ![task[p]] = fs[FileOf[task[p]]]]
           /\ pc' = [pc EXCEPT ![p] = "persist"]
           /\ Log([op |-> "exec", p |-> p, t |-> task[p], f |-> "", c |-> 0])
           /\ UNCHANGED <<fs, disk, task, mem, dig, ninv, nedits, viol>>

\* record the digest computed before the commands started
Persist(p) == /\ pc[p] = "persist"
              /\ WriteBack(p, task[p], dig[p])
              /\ pc' = [pc EXCEPT ![p] = "idle"]
              /\ Log([op |-> "persist", p |-> p, t |-> task[p], f |-> "", c |-> 0])
              /\ UNCHANGED <<fs, lastOk, task, dig, ninv, nedits, viol>>

Next == \/ \E f \in Files, c \in Contents : Edit(f, c)
        \/ \E p \in Procs : \/ \E t \in Tasks : Begin(p, t)
                            \/ Load(p) \/ Decide(p) \/ Invalidate(p) \/ Exec(p) \/ Persist(p)
Spec == Init /\ [][Next]_vars
View == <<fs, disk, lastOk, pc, task, mem, dig, ninv, nedits, viol>>

\* C01, asked of overlapping invocations
NoWrongSkip == ~viol
\* the fact behind it: a digest in the cache file is the input of the task's last success
\* (while a process is between Exec and Persist of t, or between Invalidate and Exec, the entry may lag behind)
CacheSound == AllIdle => \A t \in Tasks : disk[t] # None => disk[t] = lastOk[t]
TypeOK == /\ pc \in [Procs -> {"idle", "load", "decide", "invalidate", "exec", "persist"}]
          /\ disk \in [Tasks -> Contents \cup {None}]
==============================================================================
