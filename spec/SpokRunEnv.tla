---------------------------- MODULE SpokRunEnv ----------------------------
(* Property level of the run / cache family (C01 C02 C14 C10, second clause of C09).           *)
(*                                                                                            *)
(* The environment of spok as far as incremental runs are concerned: the dependency files of  *)
(* a small project (`fs`), and ghost history that no implementation keeps but the properties   *)
(* talk about: on which inputs each task's commands last completed successfully, whether its   *)
(* last execution failed, whether it has been executed under --force, whether spok has been    *)
(* killed since the cache was last removed.  `Observe(obs)` folds one observed invocation into *)
(* the ghost state and computes which property clauses that observation violates.  The very    *)
(* same operator judges (a) the protocol model in SpokRun.tla and (b) invocations recorded     *)
(* from the real code (SpokRunTrace.tla), so the properties are stated once.                   *)
(*                                                                                            *)
(* Nothing in this module depends on how spok implements caching.                              *)
EXTENDS Integers, Sequences, FiniteSets, TLC, Json

\* ---- the program (tasks with literal-file, glob and task dependencies) -- from program.json ----
Prog == JsonDeserialize("program.json")
SeqRange(s) == {s[i] : i \in DOMAIN s}
Tasks == {Prog.tasks[i].name : i \in DOMAIN Prog.tasks}
TaskRec(t) == Prog.tasks[CHOOSE i \in DOMAIN Prog.tasks : Prog.tasks[i].name = t]
LitDeps(t)  == SeqRange(TaskRec(t).lit)        \* literal file dependencies
GlobPats(t) == SeqRange(TaskRec(t).glob)       \* glob patterns
GlobCand(t) == SeqRange(TaskRec(t).globcand)   \* universe files those patterns denote
TaskDeps(t) == SeqRange(TaskRec(t).deps)
Files == SeqRange(Prog.files)
NCmds == 2                                     \* every task of a program has two commands

Absent == 9
NeverS == {<<"never", 0>>}                      \* "never succeeded": same shape as a snapshot

VARIABLES fs,          \* [Files -> content id | Absent]
          lastOk,      \* ghost: [Tasks -> snapshot on which t's commands last completed successfully | NeverS]
          lastFailed,  \* ghost: [Tasks -> BOOLEAN]  t's last execution did not complete successfully
          forcedT,     \* ghost: [Tasks -> BOOLEAN]  t has been executed under --force since the cache was last removed
          crashed,     \* ghost: spok was killed (or its cache torn) since the cache was last removed
          viol         \* names of the property clauses violated by the last step

envvars == <<fs, lastOk, lastFailed, forcedT, crashed, viol>>

\* the files named by t's file and glob dependencies: set of (path, content)
Inputs(t)     == {<<f, fs[f]>> : f \in {g \in LitDeps(t) \cup GlobCand(t) : fs[g] # Absent}}
MissingLit(t) == \E f \in LitDeps(t) : fs[f] = Absent
HasFileDeps(t) == LitDeps(t) \cup GlobPats(t) # {}

RECURSIVE Reach(_)
Reach(S) == LET N == S \cup UNION {TaskDeps(t) : t \in S} IN IF N = S THEN S ELSE Reach(N)
Closure(req) == Reach(SeqRange(req))

EnvInit(fs0) == /\ fs = fs0
                /\ lastOk = [t \in Tasks |-> NeverS]
                /\ lastFailed = [t \in Tasks |-> FALSE]
                /\ forcedT = [t \in Tasks |-> FALSE]
                /\ crashed = FALSE
                /\ viol = {}

\* ---- environment actions ----
EnvEdit(f, c) == /\ fs' = [fs EXCEPT ![f] = c]
                 /\ viol' = {}
                 /\ UNCHANGED <<lastOk, lastFailed, forcedT, crashed>>
\* removing .spok wipes everything spok knew: the properties start afresh
Forget == /\ lastOk' = [t \in Tasks |-> NeverS]
          /\ lastFailed' = [t \in Tasks |-> FALSE]
          /\ forcedT' = [t \in Tasks |-> FALSE]
          /\ crashed' = FALSE
          /\ viol' = {}
EnvRmCache == Forget /\ UNCHANGED fs
\* the cache file is left as a strict prefix of what was being written (kill during the write)
EnvTear == /\ crashed' = TRUE /\ viol' = {} /\ UNCHANGED <<fs, lastOk, lastFailed, forcedT>>

\* ---- observations ----
\* obs = [req: <<task>>, force: BOOLEAN, failing: <<task>>,
\*        reports: <<[t, skipped, nres]>>      what spok reported (empty if it returned an error or was killed)
\*        ran: <<[t, n, ok]>>                  ground truth: which commands really executed (ok = all n = NCmds exited 0)
\*        outcome: "normal" | "error" | "panic" | "killed",  errcls: "none" | "cache" | "runner" | "other",  killed: BOOLEAN]
\*        (errcls "runner": a command could not be run at all -- the environment's doing, like a failing command)
Rep(obs)        == SeqRange(obs.reports)
RanIdx(obs, t)  == {i \in DOMAIN obs.ran : obs.ran[i].t = t}
Executed(obs, t) == RanIdx(obs, t) # {}
LastRan(obs, t) == obs.ran[CHOOSE i \in RanIdx(obs, t) : \A j \in RanIdx(obs, t) : j <= i]
Succeeded(obs, t) == Executed(obs, t) /\ LastRan(obs, t).ok
Reported(obs)   == {r.t : r \in Rep(obs)}
Failing(obs)    == SeqRange(obs.failing)

\* a skip is justified only by: last success was on exactly the current inputs
Justified(t) == lastOk[t] = Inputs(t)
\* C02's antecedent for task t in the current state
MustSkip(t) == /\ Inputs(t) # {} /\ ~MissingLit(t)
               /\ Justified(t) /\ ~lastFailed[t]
\* the inputs of t in the file state g
InputsIn(g, t) == {<<f, g[f]>> : f \in {h \in LitDeps(t) \cup GlobCand(t) : g[h] # Absent}}
\* the same, judged on the files a task of the observed invocation saw WHEN ITS TURN CAME.  A task of the run may write a file that a
\* later task of the same run depends on (a generator before its consumer; a rewriting task between two tasks that share a file), so
\* neither the invocation's start state fs nor its end state fs' is what every task saw.  An observation of the real code carries, per
\* task, the files as they were when the task's turn came (obs.seen[t]) and when its last command had finished (obs.done[t]); where
\* an observation has no such entry (the protocol model, whose commands write no dependency files) the end state fs' stands in.
SeenFs(obs, t) == IF "seen" \in DOMAIN obs /\ t \in DOMAIN obs.seen THEN obs.seen[t] ELSE fs'
DoneFs(obs, t) == IF "done" \in DOMAIN obs /\ t \in DOMAIN obs.done THEN obs.done[t] ELSE fs'
InputsSeen(obs, t)     == InputsIn(SeenFs(obs, t), t)
MissingLitSeen(obs, t) == \E f \in LitDeps(t) : SeenFs(obs, t)[f] = Absent
JustifiedSeen(obs, t)  == lastOk[t] = InputsSeen(obs, t)
MustSkipSeen(obs, t)   == InputsSeen(obs, t) # {} /\ ~MissingLitSeen(obs, t) /\ JustifiedSeen(obs, t) /\ ~lastFailed[t]
WrongSkips(obs) == {r \in Rep(obs) : r.skipped /\ ~JustifiedSeen(obs, r.t)}

Violations(obs) ==
  LET quiet == ~crashed /\ ~obs.killed                       \* crash-free history so far
      clo   == Closure(obs.req)
      nofail == Failing(obs) \cap clo = {}
  IN
  \* C01: never skipped unless inputs equal those of the last success (crash-free histories)
     (IF quiet /\ WrongSkips(obs) # {} THEN {"C01"} ELSE {})
  \* "skipped" means none of its commands executed (C01: a skip is a skip; C02: executes none of its commands)
  \cup (IF \E r \in Rep(obs) : r.skipped /\ Executed(obs, r.t) THEN {"SkipRan"} ELSE {})
  \* C02: unchanged since last success => none of its commands run and it is reported skipped
  \cup (IF quiet /\ ~obs.force /\ \E t \in Tasks : MustSkipSeen(obs, t) /\
             (Executed(obs, t) \/ \E r \in Rep(obs) : r.t = t /\ ~r.skipped) THEN {"C02"} ELSE {})
  \* C02: tasks without any file dependency always run
  \cup (IF \E r \in Rep(obs) : r.skipped /\ ~HasFileDeps(r.t) THEN {"C02n"} ELSE {})
  \* C14: with --force every task of the requested closure executes, none is reported skipped
  \cup (IF obs.force /\ obs.outcome = "normal" /\
           (\/ \E r \in Rep(obs) : r.skipped \/ ~Executed(obs, r.t)
            \/ (nofail /\ (Reported(obs) # clo \/ \E t \in clo : ~Succeeded(obs, t))))
        THEN {"C14a"} ELSE {})
  \* C14: a forced run does not damage the cache
  \cup (IF quiet /\ \E r \in WrongSkips(obs) : forcedT[r.t] THEN {"C14b"} ELSE {})
  \* C09: a task whose last execution failed is not treated as up to date by later runs (read strictly: never skipped,
  \* even if an earlier success was on the same inputs -- C02 makes no demand in that situation, see MustSkip)
  \cup (IF quiet /\ \E r \in Rep(obs) : r.skipped /\ lastFailed[r.t] THEN {"C09b"} ELSE {})
  \* C10: after a kill / torn cache: never a wrong skip; behaves normally or stops with an explicit cache error
  \cup (IF (crashed \/ obs.killed) /\
           (\/ WrongSkips(obs) # {}
            \/ obs.outcome = "panic"
            \/ (obs.outcome = "error" /\ obs.errcls \notin {"cache", "runner"} /\ ~\E t \in clo : MissingLitSeen(obs, t) \/ MissingLit(t)))
        THEN {"C10"} ELSE {})

\* (fs' has to be determined before Observe is evaluated.)  The inputs of a task's last success are those it completed on: the files
\* as they were when its last command had finished
Observe(obs) ==
  /\ lastOk'     = [t \in Tasks |-> IF Succeeded(obs, t) THEN InputsIn(DoneFs(obs, t), t) ELSE lastOk[t]]
  /\ lastFailed' = [t \in Tasks |-> IF Executed(obs, t) THEN ~Succeeded(obs, t) ELSE lastFailed[t]]
  /\ forcedT'    = [t \in Tasks |-> forcedT[t] \/ (obs.force /\ Executed(obs, t))]
  /\ crashed'    = (crashed \/ obs.killed)
  /\ viol'       = Violations(obs)

\* ---- the properties, as state invariants over `viol` ----
Inv_C01     == "C01" \notin viol
Inv_SkipRan == "SkipRan" \notin viol
Inv_C02     == "C02" \notin viol
Inv_C02n    == "C02n" \notin viol
Inv_C14a    == "C14a" \notin viol
Inv_C14b    == "C14b" \notin viol
Inv_C09b    == "C09b" \notin viol
Inv_C10     == "C10" \notin viol
==========================================================================
