---------------------------- MODULE HashPoolTrace ----------------------------
(* Trace validation of the REAL worker pool against HashPool: the hook events recorded from       *)
(* hash.Concurrent.Hash (pool.start, worker.recv, worker.send, main.recv, worker.exit,             *)
(* jobs.closed, results.closed, main.return) must be explainable as a behaviour of the model.     *)
(* Events are ordered reliably only within one goroutine (program order); across goroutines a      *)
(* hook may be logged late.  The trace is therefore kept as one event sequence PER GOROUTINE and   *)
(* TLC looks for an interleaving of them that the model allows: every event is one model action    *)
(* with its logged arguments; the only unlogged step (a worker that skips a directory) is taken    *)
(* silently.  What is demanded are exactly the causal necessities of the design: a result is        *)
(* received only after it was sent, a worker leaves only after `jobs` was closed, `results` is     *)
(* closed only after every worker has left, Hash returns only after that.                          *)
(* A trace that cannot be explained is MODEL DRIFT (reported, never a verdict).                    *)
EXTENDS HashPool

Traces == JsonDeserialize("traces.json")
\* trace: [list: <<entry>>, ncpu: n, procs: << <<[ev, e]>> >>]   procs[1] = main, [2] = producer, [3] = closer, [3 + w] = worker w

VARIABLES h, pos
tvars == <<vars, h, pos>>

T == Traces[h]
NP == Len(T.procs)

TInit == /\ h \in DOMAIN Traces
         /\ list = Traces[h].list /\ ncpu = Traces[h].ncpu
         /\ pidx = 1 /\ jobsClosed = FALSE
         /\ wst = [w \in 1..Min2(ncpu, Len(list)) |-> "idle"]
         /\ wfile = [w \in 1..Min2(ncpu, Len(list)) |-> 0]
         /\ wg = Min2(ncpu, Len(list))
         /\ resClosed = FALSE /\ acc = <<>> /\ mainst = "collect" /\ result = NoResult
         /\ pos = [p \in 1..Len(Traces[h].procs) |-> 1]

Adv(p) == pos' = [pos EXCEPT ![p] = @ + 1] /\ UNCHANGED h

Step(p) ==
  /\ pos[p] <= Len(T.procs[p])
  /\ LET e == T.procs[p][pos[p]]  w == p - 3 IN
     CASE e.ev = "recv"    -> w \in W /\ Hand(w) /\ wfile'[w] = e.e
       [] e.ev = "send"    -> w \in W /\ wfile[w] = e.e /\ Process(w) /\ wst'[w] = "send"
       [] e.ev = "mrecv"   -> \E v \in W : wfile[v] = e.e /\ Deliver(v)
       [] e.ev = "exit"    -> w \in W /\ WorkerExit(w)
       [] e.ev = "jclosed" -> CloseJobs
       [] e.ev = "rclosed" -> CloseResults
       [] e.ev = "return"  -> MainReturn
       [] OTHER -> FALSE
  /\ Adv(p)

\* unlogged: a worker opens a directory and goes back for the next job
SkipDir == \E w \in W : wst[w] = "work" /\ wfile[w] \in DirE /\ Process(w) /\ UNCHANGED <<h, pos>>

TNext == (\E p \in 1..NP : Step(p)) \/ SkipDir
TSpec == TInit /\ [][TNext]_tvars

Accepted == (mainst = "returned" /\ \A p \in 1..NP : pos[p] = Len(T.procs[p]) + 1) => PrintT(<<"ACC", h>>)
==============================================================================
