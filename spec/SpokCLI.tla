------------------------------- MODULE SpokCLI -------------------------------
(* The command line of spok as an abstract transition system over a project tree, and the        *)
(* per-action effect / report rules behind C09 (first clause), C12, C13, C19 and C20.            *)
(*                                                                                               *)
(* Abstract state: which kind of spokfile the project holds, the working directory (project      *)
(* root or a nested directory), whether .gitignore / .env exist, whether the cache exists.       *)
(* Action: one invocation of the binary with a flag combination; dispatch follows cli/app:       *)
(*   --init before everything (works on the cwd, no spokfile needed);                            *)
(*   otherwise find + read + parse + load the spokfile (any failure: error, nothing written);    *)
(*   then --fmt | --vars | --clean | --show | run (tasks given, or `default` when defined,       *)
(*   else the listing).                                                                          *)
(* The frame rule MayWrite says which paths an action may create, change or delete.  TLC          *)
(* enumerates the abstract scenario space (Init x Invoke) and exports it; the driver builds each  *)
(* scenario for real, runs the built binary as an unprivileged user in a sandbox HOME and         *)
(* records full before/after snapshots; the Conforms_* relations below are then evaluated by TLC  *)
(* on the records.  Paths are sequences of segments relative to the sandbox HOME.                *)
EXTENDS Integers, Sequences, FiniteSets, TLC, Json, SequencesExt, FiniteSetsExt

SeqRange(s) == {s[i] : i \in DOMAIN s}
IsPfx(a, b) == Len(a) <= Len(b) /\ SubSeq(b, 1, Len(a)) = a
StrictPfx(a, b) == Len(a) < Len(b) /\ SubSeq(b, 1, Len(a)) = a

\* ------------------------------------------------------------------ abstract scenario space (C19)
SpokKinds == {"formatted", "unformatted", "syntaxbad", "loadbad", "missing"}
\* what can be put on the command line: the nine boolean flags and (abstractly) "a task name is given"
Flags     == {"init", "fmt", "vars", "clean", "show", "quiet", "debug", "json", "force", "task"}
CONSTANT MaxFlags
FlagSets  == {F \in SUBSET Flags : Cardinality(F) <= MaxFlags}
Cwds      == {"root", "nested", "elsewhere"}     \* elsewhere: an unrelated directory, the spokfile named with --spokfile

VARIABLES kind, cwd, gitignore, dotenv, cache, last
cvars == <<kind, cwd, gitignore, dotenv, cache, last>>

CInit == /\ kind \in SpokKinds /\ cwd \in Cwds /\ gitignore \in BOOLEAN /\ dotenv \in BOOLEAN
         /\ cache = FALSE /\ last = "-"

Valid == kind \in {"formatted", "unformatted"}
\* dispatch precedence of cli/app.Run: --init before everything; --quiet with --debug is refused; then the spokfile must be
\* found, parsed and loaded; then --fmt, --vars, --clean, --show in that order; otherwise run the named tasks, or `default`
\* (every valid spokfile of the scenario space defines one)
Effective(F) ==
  IF "init" \in F THEN "init"
  ELSE IF {"quiet", "debug"} \subseteq F THEN "refused"
  ELSE IF ~Valid THEN "refused"
  ELSE IF "fmt" \in F THEN "fmt"
  ELSE IF "vars" \in F THEN "vars"
  ELSE IF "clean" \in F THEN "clean"
  ELSE IF "show" \in F THEN "show"
  ELSE "run"
\* one invocation; the abstract effect on the state
Invoke(F) ==
  LET a == Effective(F) IN
  /\ last' = a
  /\ CASE a = "init" -> /\ kind' = (IF cwd = "root" /\ kind = "missing" THEN "formatted" ELSE kind)   \* a new spokfile appears in the cwd only,
                        /\ gitignore' = (IF cwd = "root" /\ kind = "missing" THEN TRUE ELSE gitignore)       \* never over an existing one
                        /\ UNCHANGED <<cwd, dotenv, cache>>
       [] a = "fmt"  -> /\ kind' = (IF kind = "unformatted" THEN "formatted" ELSE kind)
                        /\ UNCHANGED <<cwd, gitignore, dotenv, cache>>
       [] a = "run"  -> /\ cache' = TRUE
                        /\ UNCHANGED <<kind, cwd, gitignore, dotenv>>
       [] a = "clean" -> /\ cache' = FALSE                                                            \* the built-in clean removes the cache
                         /\ UNCHANGED <<kind, cwd, gitignore, dotenv>>
       [] OTHER -> UNCHANGED <<kind, cwd, gitignore, dotenv, cache>>
CNext == \E F \in FlagSets : Invoke(F)
CSpec == CInit /\ [][CNext]_cvars

\* design-level frame facts of the abstract machine
FmtOnlyWhenValid == [][(kind' # kind /\ last' = "fmt") => kind = "unformatted"]_cvars
CacheOnlyByRuns  == [][(cache' /\ ~cache) => (last' = "run" /\ Valid)]_cvars
ReadOnlyActions  == [][last' \in {"refused", "show", "vars"} => UNCHANGED <<kind, gitignore, dotenv, cache>>]_cvars
InitNeverOverwrites == [][(last' = "init" /\ kind # "missing") => kind' = kind]_cvars
\* scenario export: one line per (state, flag set) with the action the dispatch rules select
EmitScen == \A F \in FlagSets : PrintT(<<"CLI", ToJson([kind |-> kind, cwd |-> cwd, gitignore |-> gitignore, dotenv |-> dotenv,
                                                         cache |-> cache, flags |-> F, action |-> Effective(F)])>>)

\* ------------------------------------------------------------------ trees and changes (records from the driver)
\* entry: [p |-> <<segment>>, k |-> "file" | "dir" | "link" | "other", mode, h |-> content hash, lines |-> <<text line>>]
Paths(t) == {t[i].p : i \in DOMAIN t}
EntOf(t, p) == t[CHOOSE i \in DOMAIN t : t[i].p = p]
Same(a, b) == a.k = b.k /\ a.mode = b.mode /\ a.h = b.h
Changed(b, a) == {p \in Paths(b) \cup Paths(a) :
                    \/ p \notin Paths(b) \/ p \notin Paths(a)
                    \/ ~Same(EntOf(b, p), EntOf(a, p))}
Removed(b, a) == Paths(b) \ Paths(a)
Exists(t, p) == p \in Paths(t)

\* ------------------------------------------------------------------ C19: the frame rule
\* s: [action, kind, proj: <<seg>> (directory of the spokfile), cwd: <<seg>>, spokreal: <<seg>> (proj \o <<"spokfile">>, or the file it links to)]
CacheDir(s) == s.proj \o <<".spok">>
MayWrite(s, before, p) ==
  \/ IsPfx(CacheDir(s), p)                                                       \* the cache directory next to the spokfile
  \/ s.action = "fmt" /\ p = s.proj \o <<"spokfile">>                             \* (the action is "fmt" only when the spokfile parses and loads)
  \/ s.action = "fmt" /\ p = s.spokreal                                          \* the regular file a symbolic link named spokfile leads to IS the spokfile
  \/ s.action = "init" /\ p = s.cwd \o <<"spokfile">> /\ ~Exists(before, p)      \* never overwrites an existing spokfile
  \/ s.action = "init" /\ p = s.cwd \o <<".gitignore">> /\ ~Exists(before, s.cwd \o <<"spokfile">>)
Conforms_C19(r) ==
  \A i \in DOMAIN r.steps :
    LET st == r.steps[i]  s == r.scen[i] IN
    /\ st.exit >= 0                                                               \* not killed, no time-out
    /\ \A p \in Changed(st.before, st.after) : MayWrite(s, st.before, p)
    \* --init only appends to an existing .gitignore
    /\ (s.action = "init" /\ Exists(st.before, s.cwd \o <<".gitignore">>) /\ Exists(st.after, s.cwd \o <<".gitignore">>))
          => IsPfx(EntOf(st.before, s.cwd \o <<".gitignore">>).lines, EntOf(st.after, s.cwd \o <<".gitignore">>).lines)

\* ------------------------------------------------------------------ C12: --clean
\* r.scen: [proj, cwd, hasClean, designated: <<path>> (paths the declared outputs denote, either resolution of relative named
\*          outputs accepted: designatedAlt), degenerate: BOOLEAN (some output evaluates to "", "." or a path at/above the project)]
Under(S, p) == \E d \in S : IsPfx(d, p)
Conforms_C12(r) ==
  LET st == r.steps[1]  s == r.scen
      des  == SeqRange(s.designated)  alt == SeqRange(s.designatedAlt)
      cachedir == s.proj \o <<".spok">>
      ch == Changed(st.before, st.after)
      protected == {SubSeq(s.proj, 1, k) : k \in 1..Len(s.proj)} \cup {s.proj \o <<"spokfile">>}
      gone(D) == {p \in Paths(st.before) : Under(D, p)}          \* what removing D removes
  IN
  /\ st.exit >= 0
  /\ \A p \in protected : Exists(st.after, p)                    \* never the spokfile, its directory or anything above it
  /\ IF s.hasClean
     THEN /\ \A p \in ch : IsPfx(cachedir, p)                    \* the clean task ran instead, spok itself removed nothing
          /\ s.cleanMarker \in SeqRange(st.effects)
     ELSE IF s.degenerate
     THEN \A p \in ch : Under(des \cup alt \cup {cachedir}, p)    \* whatever it does, nothing outside the designated paths changes
     ELSE /\ st.exit = 0
          /\ \A p \in ch : p \in Removed(st.before, st.after)     \* nothing is modified or created
          /\ \/ Removed(st.before, st.after) = gone(des \cup {cachedir})
             \/ Removed(st.before, st.after) = gone(alt \cup {cachedir})

\* ------------------------------------------------------------------ C09: a failing command fails the invocation
\* r.scen: [tasks: <<[name, cmds: <<[marker, fails]>>]>>]; step 1 = the run under test, step 2 = a later plain run
MarkersOf(st) == SeqRange(st.effects)
FailedTasks(s, st) == {s.tasks[i].name : i \in {j \in DOMAIN s.tasks :
                          \E c \in DOMAIN s.tasks[j].cmds : s.tasks[j].cmds[c].fails /\ s.tasks[j].cmds[c].marker \in MarkersOf(st)}}
FirstMarker(s, n) == LET t == s.tasks[CHOOSE i \in DOMAIN s.tasks : s.tasks[i].name = n] IN t.cmds[1].marker
Conforms_C09(r) ==
  LET s == r.scen  a == r.steps[1]  b == r.steps[2]  F == FailedTasks(s, a) IN
  /\ a.exit >= 0 /\ b.exit >= 0
  /\ F # {} => /\ a.exit # 0                                                      \* the invocation as a whole fails
               /\ \E n \in F : n \in SeqRange(a.mentioned)                         \* and names a failing task
  /\ F = {} => a.exit = 0
  /\ \A n \in F : FirstMarker(s, n) \in MarkersOf(b)                               \* not treated as up to date by the later run

\* ------------------------------------------------------------------ C13: variables
\* r.scen: [cwd: string (absolute project dir), vars: <<[name, kind, val, args, out, fails]>>, cmds: <<[pieces: <<[k, s]>>]>>]
VarOf(s, n) == s.vars[CHOOSE i \in DOMAIN s.vars : s.vars[i].name = n]
RECURSIVE JoinArgs(_, _)
JoinArgs(args, i) == IF i > Len(args) THEN "" ELSE "/" \o args[i] \o JoinArgs(args, i + 1)
Value(s, n) == LET v == VarOf(s, n) IN
               CASE v.kind = "str"  -> v.val
                 [] v.kind = "join" -> v.jdir \o JoinArgs(v.cargs, 1)             \* absolute cleaned join: jdir = the working directory (or the directory a `..`
                                                                                   \* climbs to), cargs = the segments left of the arguments once `.`, `x/..`, `//` and
                                                                                   \* trailing `/` are cleaned away (split and cleaned by the orchestrator: TLC cannot split strings)
                 [] v.kind = "exec" -> v.out                                      \* trimmed standard output of the command
RECURSIVE Subst(_, _, _)
Subst(s, ps, i) == IF i > Len(ps) THEN ""
                   ELSE (CASE ps[i].k = "lit" -> ps[i].s
                           [] ps[i].k = "t"   -> Value(s, ps[i].s)                \* {{.NAME}} -> the variable's value
                           [] ps[i].k = "e"   -> "$" \o ps[i].s)                  \* $NAME reaches the shell unchanged
                        \o Subst(s, ps, i + 1)
AnyExecFails(s) == \E i \in DOMAIN s.vars : s.vars[i].kind = "exec" /\ s.vars[i].fails
Conforms_C13(r) ==
  LET s == r.scen  st == r.steps[1] IN
  /\ st.exit >= 0
  /\ IF AnyExecFails(s) THEN st.exit # 0 /\ st.effects = <<>>                      \* a failing exec is an error: nothing runs
     ELSE /\ st.exit = 0 /\ r.json_ok
          /\ Len(r.cmds) = Len(s.cmds)
          /\ \A i \in DOMAIN s.cmds :
                /\ r.cmds[i].cmd = Subst(s, s.cmds[i].pieces, 1)                   \* template substitution, everything else verbatim
                /\ s.cmds[i].envname # "" => r.cmds[i].stdout = Value(s, s.cmds[i].envname) \o "\n"   \* same value in the environment

\* ------------------------------------------------------------------ C20: reports and listings
\* r.scen: [tasks: <<[name, doc, deps, cmds: <<[text, out, err, marker]>>, hasfile]>>, vars: <<[name, value]>>, req, closure: <<name>>]
TaskOf(s, n) == s.tasks[CHOOSE i \in DOMAIN s.tasks : s.tasks[i].name = n]
Defined(s, n) == \E i \in DOMAIN s.tasks : s.tasks[i].name = n
NoDup(q) == \A i, j \in DOMAIN q : i # j => q[i] # q[j]
FirstIdx(q, x) == CHOOSE i \in DOMAIN q : q[i] = x /\ \A j \in DOMAIN q : q[j] = x => i <= j
\* fresh: nothing can be up to date in this run (the first run of a new project, or --force): no task may be reported skipped
JsonRun(s, st, doc, clo, fresh) ==
  LET names == [i \in DOMAIN doc |-> doc[i].task]
      ranNames == SelectSeq(names, LAMBDA n : ~doc[FirstIdx(names, n)].skipped /\ TaskOf(s, n).cmds # <<>>) IN
  /\ st.exit = 0
  /\ NoDup(names) /\ SeqRange(names) = SeqRange(clo)                               \* exactly the tasks of the run
  /\ \A i \in DOMAIN doc :
        LET t == TaskOf(s, doc[i].task) IN
        IF doc[i].skipped
        THEN /\ doc[i].results = <<>> /\ \A c \in DOMAIN t.cmds : t.cmds[c].marker \notin MarkersOf(st)
             /\ t.hasfile /\ ~fresh          \* only a task with a file dependency, and only when there was an earlier run, can be skipped
        ELSE /\ Len(doc[i].results) = Len(t.cmds)
             /\ \A c \in DOMAIN t.cmds : /\ doc[i].results[c].cmd = t.cmds[c].text
                                         /\ doc[i].results[c].stdout = t.cmds[c].out
                                         /\ doc[i].results[c].stderr = t.cmds[c].err
                                         /\ doc[i].results[c].status = 0
                                         /\ t.cmds[c].marker \in MarkersOf(st)
  \* execution order: first markers in the side-effect log appear in the order of the report
  /\ \A i, j \in DOMAIN ranNames : i < j =>
        FirstIdx(st.effects, TaskOf(s, ranNames[i]).cmds[1].marker) < FirstIdx(st.effects, TaskOf(s, ranNames[j]).cmds[1].marker)
Conforms_C20(r) ==
  LET s == r.scen IN
  /\ \A i \in DOMAIN r.steps : r.steps[i].exit >= 0
  /\ \A i \in DOMAIN r.steps :
       LET st == r.steps[i]  v == r.views[i] IN
       CASE v.mode = "json"  -> v.json_ok /\ JsonRun(s, st, v.doc, v.closure, v.fresh)  \* stdout is one JSON document ...
         [] v.mode = "quiet" -> st.exit = 0 /\ st.stdout = ""
         [] v.mode = "show"  -> /\ st.exit = 0
                                /\ Len(v.rows) = Len(s.tasks)                      \* every defined task once
                                /\ \A j \in DOMAIN v.rows : /\ Defined(s, v.rows[j].name) /\ v.rows[j].hasdoc
                                /\ NoDup([j \in DOMAIN v.rows |-> v.rows[j].name])
                                /\ v.sorted                                        \* sorted by name
         [] v.mode = "vars"  -> /\ st.exit = 0
                                /\ Len(v.rows) = Len(s.vars)
                                /\ \A j \in DOMAIN s.vars : \E k \in DOMAIN v.rows : v.rows[k].name = s.vars[j].name /\ v.rows[k].value = s.vars[j].value
         [] v.mode = "noargs" -> /\ st.exit = 0
                                 /\ IF Defined(s, "default")
                                    THEN ~v.listing                                                \* runs (or skips as up to date) the task named default
                                    ELSE st.effects = <<>> /\ v.listing                            \* lists the tasks otherwise
         [] OTHER -> TRUE

\* ------------------------------------------------------------------ evaluation over records
Recs == ndJsonDeserialize("recs.ndjson")
Rel(name, r) == CASE name = "C19" -> Conforms_C19(r) [] name = "C12" -> Conforms_C12(r) [] name = "C09" -> Conforms_C09(r)
                  [] name = "C13" -> Conforms_C13(r) [] name = "C20" -> Conforms_C20(r)
JudgeOut == JsonSerialize("verdict.json",
   [bad |-> SetToSeq({i \in DOMAIN Recs : ~Rel(Recs[i].rel, Recs[i])}), n |-> Len(Recs)])
==============================================================================
