------------------------------ MODULE ParseSM ------------------------------
(* The parser of spok (parser/parser.go) over the token list the lexer model produced.               *)
(* The unbuffered channel between the two goroutines is a FIFO; after the lexer closes it every      *)
(* further read yields the zero token (EOF, line 0).  Top / Task / Assign / ArgList / OutList /      *)
(* Outputs / Commands / Expect follow the Go methods, including the one-token backup, "the token     *)
(* after # is the comment whatever it is", "the token after task is the name whatever it is", and    *)
(* the commands loop that ignores every token other than ERROR / } / COMMAND (outcome `hang` if it   *)
(* ever reads a zero token).  Variant "pinned" keeps the named deviation of the output-list ERROR    *)
(* case (message without line); "fixed" is the repaired parser, which also rejects a variable named  *)
(* task.  Model invariants: NoHang, NeverPastEnd, Located (C08).                                     *)
EXTENDS LexSM
\* The parser as a function of the token list the lexer produced (channel = FIFO; after the
\* lexer closes the channel every further read yields the zero token: EOF with line 0).
Zero == [ty |-> "EOF", s |-> 0, e |-> 0, ln |-> 0, ml |-> 0]
T(i) == IF i <= Len(toks) THEN toks[i] ELSE Zero
Past(i) == i > Len(toks)
\* results: [k |-> "ok", i |-> next index] | [k |-> "err", line |-> n, past |-> BOOLEAN] | [k |-> "hang"]
Ok(i) == [k |-> "ok", i |-> i, line |-> 0, past |-> FALSE]
LexErr(t, i) == [k |-> "err", i |-> i, line |-> t.ml, past |-> Past(i)]      \* lexer's own message
Illegal(t, i) == [k |-> "err", i |-> i, line |-> t.ln, past |-> Past(i)]     \* cites the token's line
NoLine(i) == [k |-> "err", i |-> i, line |-> 0 - 1, past |-> Past(i)]        \* pinned: message without a line
Hang == [k |-> "hang", i |-> 0, line |-> 0, past |-> TRUE]

\* list of STRING/IDENT/COMMA until RPAREN, starting at index i (first element)
RECURSIVE ArgList(_)
ArgList(i) == LET t == T(i) IN
  CASE t.ty = "RPAREN" -> Ok(i + 1)
    [] t.ty \in {"STRING", "IDENT", "COMMA"} -> ArgList(i + 1)
    [] t.ty = "ERROR" -> LexErr(t, i)
    [] OTHER -> Illegal(t, i)
\* parenthesised output list: the ERROR case returns the wrong token's value (no line) in the pinned code
RECURSIVE OutList(_)
OutList(i) == LET t == T(i) IN
  CASE t.ty = "RPAREN" -> Ok(i + 1)
    [] t.ty \in {"STRING", "IDENT", "COMMA"} -> OutList(i + 1)
    [] t.ty = "ERROR" -> IF Variant = "fixed" THEN LexErr(t, i) ELSE NoLine(i)
    [] OTHER -> Illegal(t, i)
Expect(ty, i) == LET t == T(i) IN
  IF t.ty = "ERROR" THEN LexErr(t, i) ELSE IF t.ty # ty THEN Illegal(t, i) ELSE Ok(i + 1)
RECURSIVE Commands(_)
Commands(i) == LET t == T(i) IN
  CASE t.ty = "ERROR" -> LexErr(t, i)
    [] t.ty = "RBRACE" -> Ok(i + 1)
    [] Past(i) -> Hang                       \* zero tokens are ignored for ever
    [] OTHER -> Commands(i + 1)
Outputs(i) == LET t == T(i) IN
  IF t.ty # "OUTPUT" THEN Ok(i)              \* backup
  ELSE LET u == T(i + 1) IN
       CASE u.ty \in {"STRING", "IDENT", "COMMA"} -> Ok(i + 2)
         [] u.ty = "LPAREN" -> OutList(i + 2)
         [] u.ty = "ERROR" -> LexErr(u, i + 1)
         [] OTHER -> Illegal(u, i + 1)
\* task keyword (and docstring) already consumed; i = index of the name token (any token is taken)
Task(i) == LET a == Expect("LPAREN", i + 1) IN IF a.k # "ok" THEN a ELSE
           LET b == ArgList(a.i) IN IF b.k # "ok" THEN b ELSE
           LET c == Outputs(b.i) IN IF c.k # "ok" THEN c ELSE
           LET d == Expect("LBRACE", c.i) IN IF d.k # "ok" THEN d ELSE Commands(d.i)
\* is token j the text "task"?  (an IDENT token can carry it when it did not stand at the start of a line)
IsTaskWord(j) == LET t == T(j) IN t.e - t.s = 4 /\ SubSeq(inp, t.s + 1, t.e) = <<"t", "a", "s", "k">>
\* ident already consumed; i = index of the token after it
Assign(i) == IF Variant = "fixed" /\ IsTaskWord(i - 1) THEN Illegal(T(i - 1), i - 1) ELSE
             LET a == Expect("DECLARE", i) IN IF a.k # "ok" THEN a ELSE
             LET t == T(a.i) IN
             CASE t.ty = "STRING" -> Ok(a.i + 1)
               [] t.ty = "IDENT" -> IF T(a.i + 1).ty = "LPAREN" THEN ArgList(a.i + 2) ELSE Ok(a.i + 1)
               [] t.ty = "ERROR" -> LexErr(t, a.i)
               [] OTHER -> Illegal(t, a.i)
RECURSIVE Top(_)
Top(i) == LET t == T(i) IN
  CASE t.ty = "EOF" -> [k |-> "tree", i |-> i, line |-> 0, past |-> Past(i)]
    [] t.ty = "ERROR" -> LexErr(t, i)
    [] t.ty = "HASH" -> IF T(i + 2).ty = "TASK"
                        THEN LET r == Task(i + 3) IN IF r.k = "ok" THEN Top(r.i) ELSE r
                        ELSE Top(i + 2)          \* comment text = whatever token follows the hash
    [] t.ty = "IDENT" -> LET r == Assign(i + 1) IN IF r.k = "ok" THEN Top(r.i) ELSE r
    [] t.ty = "TASK" -> LET r == Task(i + 1) IN IF r.k = "ok" THEN Top(r.i) ELSE r
    [] OTHER -> Illegal(t, i)
Parse == Top(1)
\* C08 on the model
NoHang == fn = "Done" => Parse.k # "hang"
NeverPastEnd == fn = "Done" => ~Parse.past
Located == fn = "Done" /\ Parse.k = "err" => Parse.line >= 1 /\ Parse.line <= 1 + NLBefore(N)
EmitP == (fn = "Done") => PrintT(<<"PAR", ToJson([inp |-> inp, k |-> Parse.k, line |-> Parse.line])>>)
\* scenario export: every reachable finished scan with the token stream and the parse outcome the models predict
EmitLP == (fn = "Done") => LET pr == Parse IN
            PrintT(<<"LP", ToJson([inp |-> inp, toks |-> toks, k |-> pr.k, line |-> pr.line])>>)
=============================================================================
