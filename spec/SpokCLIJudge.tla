---------------------------- MODULE SpokCLIJudge ----------------------------
(* Evaluates the Conforms_* relations of SpokCLI over the recorded runs of the built binary. *)
EXTENDS SpokCLI
ASSUME JudgeOut
JInit == CInit /\ kind = "missing" /\ cwd = "root" /\ ~gitignore /\ ~dotenv
JNext == UNCHANGED cvars
==============================================================================
