---------------------------- MODULE TaskGraphDefs ----------------------------
(* Declarative vocabulary of C03, shared by the algorithm model (TaskGraph) and the judge of     *)
(* recorded real runs (TaskGraphJudge): closure of a request under declared task dependencies,   *)
(* the error conditions, and what an acceptable execution order is.                              *)
(*   D : [name -> set of names it depends on]   (defined names only)                             *)
(*   Def : set of names defined exactly once or more;  Dup : names defined twice                 *)
EXTENDS Integers, Sequences, FiniteSets

SeqRange(s) == {s[i] : i \in DOMAIN s}

RECURSIVE ReachFrom(_, _, _)
\* least set containing S and closed under D on defined names
ReachFrom(D, Def, S) == LET N == S \cup UNION {D[n] : n \in S \cap Def} IN
                        IF N = S THEN S ELSE ReachFrom(D, Def, N)
\* names reachable from n by one or more dependency steps
ReachPlus(D, Def, n) == IF n \in Def THEN ReachFrom(D, Def, D[n]) ELSE {}

Closure(D, Def, req)  == ReachFrom(D, Def, SeqRange(req))
UndefIn(D, Def, S)    == S \ Def # {}
CycleIn(D, Def, S)    == \E n \in S \cap Def : n \in ReachPlus(D, Def, n)

\* "a requested or depended-on task name is undefined, a task name is defined twice, or the dependencies of the
\*  selected tasks contain a cycle"
ErrCond(D, Def, Dup, req) == LET clo == Closure(D, Def, req) IN
                             \/ Dup # {}
                             \/ UndefIn(D, Def, clo)
                             \/ CycleIn(D, Def, clo)
\* an anomaly that lies outside the closure of the request: erroring on it and ignoring it are both acceptable
AnomalyOutside(D, Def, Dup, req) ==
   LET clo == Closure(D, Def, req) IN
   \/ \E n \in Def \ clo : D[n] \ Def # {} \/ n \in ReachPlus(D, Def, n)

NoDup(s)    == \A i, j \in DOMAIN s : i # j => s[i] # s[j]
IsPermOf(s, S) == NoDup(s) /\ SeqRange(s) = S
\* never starts a task before all tasks it depends on have finished
DepsFirst(D, Def, s) == \A i \in DOMAIN s : s[i] \in Def =>
                           \A d \in D[s[i]] : d \in {s[j] : j \in 1..(i - 1)}
\* weaker form for runs with failures: whatever ran keeps the order (a dependency that did run, ran earlier)
DepsFirstAmong(D, Def, s) == \A i \in DOMAIN s : s[i] \in Def =>
                           \A d \in D[s[i]] \cap SeqRange(s) : d \in {s[j] : j \in 1..(i - 1)}
==============================================================================
