"""C17: Find.tla (walk as a state machine over every configuration, termination) + real file.Find on every chain."""
import itertools
import json
import os
import random
import subprocess
from concurrent.futures import ThreadPoolExecutor

import vlib
from vlib import Machinery, log


def mc(ctx, depth, variant, liveness=True, timeout=1800, spellings="AllSpellings"):
    cfg = "SPECIFICATION Spec\nCONSTANTS Depth = %d Variant = \"%s\" Spellings <- %s\nINVARIANTS Correct NeverAboveStop CorrectAgree\n%s" % (
        depth, variant, spellings, "PROPERTY Terminates\n" if liveness else "")
    return vlib.tlc(ctx, "Find", cfg, workers=min(12, vlib.NCPU), timeout=timeout, heap="10g")


SPELLINGS = [("clean", "clean"), ("slash", "clean"), ("clean", "slash"), ("slash", "slash"), ("dotted", "clean"), ("clean", "dotted"),
             ("rel", "clean"), ("clean", "rel"), ("rel", "rel")]


def tlaps_proof(ctx):
    """FindProof.tla: Correct (CHOOSE-free form) and NeverAboveStop for every Depth, by TLAPS. -> (obligations, proved)"""
    import re
    import shutil
    wd = ctx.sub("tlaps")
    for f in ("Find.tla", "FindProof.tla"):
        shutil.copyfile(os.path.join(vlib.SPEC, f), os.path.join(wd, f))
    try:
        p = subprocess.run(["tlapm", "--threads", str(min(16, vlib.NCPU)), "FindProof.tla"], cwd=wd, capture_output=True, text=True, timeout=1500)
    except subprocess.TimeoutExpired:
        raise Machinery("tlapm timed out on FindProof.tla")
    out = p.stdout + p.stderr
    m = re.search(r"All (\d+) obligations proved", out)
    if p.returncode != 0 or not m:
        raise Machinery("tlapm did not prove FindProof.tla: %s" % out[-1500:])
    return int(m.group(1)), int(m.group(1))


def dir_opts(full):
    """contents of one directory; `full`: other entries can matter here (it holds a spokfile entry or is the stop dir)"""
    out = []
    for spok in ("none", "file", "dir"):
        if spok == "none" and not full:
            out.append({"spok": spok, "before": False, "after": False})
            continue
        for b, a in ((False, False), (True, False), (False, True), (True, True)):
            out.append({"spok": spok, "before": b, "after": a})
    return out


def scenarios(tier, seed):
    rnd = random.Random(seed)
    scen = []
    depths = [0, 1, 2] if tier == "quick" else [0, 1, 2, 3]
    none = {"spok": "none", "before": False, "after": False}
    for d in depths:
        n = d + 1
        for start in list(range(n)) + [-1]:
            for stop in list(range(n)) + [-1]:
              # the unrelated directory hangs off the sandbox root (-2) or off a level of the chain
              for ua in ([-2] + list(range(n)) if (start == -1 or stop == -1) else [-2]):
                per_level = []
                for l in range(n):
                    relevant = (start >= 0 and l <= start) or (start == -1 and l <= ua)
                    if not relevant:
                        per_level.append([none])
                    else:
                        per_level.append(dir_opts(full=True if l == stop else False) if False else dir_opts(l == stop) + [o for o in dir_opts(True) if o["spok"] != "none" and l != stop])
                uopts = dir_opts(True) if (start == -1 or stop == -1) else [none]
                combos = list(itertools.product(*per_level))
                if len(combos) * len(uopts) > (3000 if tier == "quick" else 12000):
                    combos = rnd.sample(combos, (3000 if tier == "quick" else 12000) // len(uopts))
                for lv in combos:
                    for u in uopts:
                        scen.append({"id": len(scen) + 1, "levels": list(lv), "u": u, "start": start, "stop": stop, "ua": ua})
    if tier != "quick":
        # depth 4, sampled
        for _ in range(60000):
            n = 5
            start = rnd.choice(list(range(n)) + [-1])
            stop = rnd.choice(list(range(n)) + [-1])
            scen.append({"id": len(scen) + 1, "levels": [rnd.choice(dir_opts(True)) for _ in range(n)], "u": rnd.choice(dir_opts(True)),
                         "start": start, "stop": stop, "ua": rnd.choice([-2] + list(range(n)))})
    # other spellings of the same two directories (Find.tla: Spellings): trailing separator, `.` / `x/..` elements, relative to a
    # working directory at or above the directory (every such cwd)
    base = list(scen)
    per_pair = 1500 if tier == "quick" else 12000
    for ssp, tsp in SPELLINGS[1:]:
        for b in rnd.sample(base, min(per_pair, len(base))):
            anc = lambda l: ([-1] + list(range(b.get("ua", -2) + 1)) if l == -1 else list(range(l + 1))) + [-2]
            cw = set(anc(b["start"])) if ssp == "rel" else None
            if tsp == "rel":
                cw = set(anc(b["stop"])) if cw is None else cw & set(anc(b["stop"]))
            if b["start"] >= len(b["levels"]) or b["stop"] >= len(b["levels"]):
                continue
            for c in sorted(cw) if cw is not None else [-2]:
                scen.append(dict(b, startSp=ssp, stopSp=tsp, cwd=c))
    # an unrelated directory whose path and a chain directory's path are string prefixes of one another (proj / project): a walk
    # that decides "lies above" by comparing spellings instead of path elements takes one for an ancestor of the other
    unrel = [b for b in base if b["start"] == -1 or b["stop"] == -1]
    for un in ("pfx", "short"):
        for b in rnd.sample(unrel, min(len(unrel), 2500 if tier == "quick" else 20000)):
            scen.append(dict(b, uname=un))
    # chains that run through directories named spokfile (a start / stop directory that is itself called spokfile)
    thr = [b for b in base if any(l["spok"] == "dir" for l in b["levels"][:-1])]
    for b in rnd.sample(thr, min(len(thr), 2500 if tier == "quick" else 20000)):
        scen.append(dict(b, through=True))
    # deep chains: the spokfile far above the start directory (a walk that gives up after a fixed number of levels)
    none_ = {"spok": "none", "before": False, "after": False}
    for depth in (40, 130):
        for hit in (0, 3, depth // 2):
            for stop in (0, hit, hit + 1):
                lv = [dict(none_) for _ in range(depth + 1)]
                lv[hit] = {"spok": "file", "before": True, "after": True}
                scen.append({"id": 0, "levels": lv, "u": none_, "start": depth, "stop": stop})
    # de-duplicate
    seen, out = set(), []
    for s in scen:
        s.setdefault("through", False)
        s.setdefault("ua", -2)
        s.setdefault("startSp", "clean")
        s.setdefault("stopSp", "clean")
        s.setdefault("cwd", -2)
        s.setdefault("uname", "")
        k = json.dumps({x: s[x] for x in ("levels", "u", "start", "stop", "startSp", "stopSp", "cwd", "through", "ua", "uname")}, sort_keys=True)
        if k not in seen:
            seen.add(k)
            s["id"] = len(out) + 1
            out.append(s)
    return out


def drive(ctx, driver, scen, k):
    d = ctx.sub("findio")
    inp, outp = os.path.join(d, "in%d.ndjson" % k), os.path.join(d, "out%d.ndjson" % k)
    vlib.write_ndjson(inp, scen)
    p = subprocess.run([driver, "find", "--root", os.path.join(ctx.scratch, "f%d" % k, "r"), "--in", inp, "--out", outp], capture_output=True, text=True)
    if p.returncode != 0:
        raise Machinery("find driver failed: %s" % p.stderr[-2000:])
    recs = vlib.read_ndjson(outp)
    if len(recs) != len(scen):
        raise Machinery("find driver: %d records for %d scenarios" % (len(recs), len(scen)))
    return recs


def tla_rec(s, r):
    if r.get("outcome") == "driver-error":
        raise Machinery("find driver error: %s" % r.get("err"))
    return {"id": s["id"], "spok": [l["spok"] for l in s["levels"]], "uspok": s["u"]["spok"], "start": s["start"], "stop": s["stop"],
            "startSp": s["startSp"], "stopSp": s["stopSp"], "cwd": s["cwd"], "ua": s["ua"], "outcome": r.get("outcome"), "level": r.get("level", -5)}


def judge(ctx, recs, k=0):
    wd = ctx.sub("fjudge-%d-%d" % (k, random.getrandbits(30)))
    vlib.write_ndjson(os.path.join(wd, "recs.ndjson"), recs)
    r = vlib.tlc(ctx, "FindJudge", "", workers=1, timeout=1200, workdir=wd, dump_trace=False, heap="4g")
    vp = os.path.join(wd, "verdict.json")
    if r.error or not os.path.exists(vp):
        raise Machinery("FindJudge failed: %s" % (r.error or r.out[-1500:]))
    v = json.load(open(vp))
    for key in list(v):
        if isinstance(v[key], dict) and not v[key]:
            v[key] = []
    return v


def run(ctx):
    tier = ctx.tier
    driver = vlib.build_driver(ctx)
    # every spelling pair at depth 1 (quick) / 2 (thorough), and clean paths one level deeper (after the Abs step the graph is the same)
    d_all = 1 if tier == "quick" else 2
    m = mc(ctx, d_all, "fixed")
    if m.error or m.violated:
        raise Machinery("Find model check failed: %s %s" % (m.violated, (m.error or "")[:1500]))
    m3 = mc(ctx, d_all + 1, "fixed", spellings="CleanOnly", liveness=(tier != "quick"))    # termination: depth 1 in quick, the ranking proof for every depth
    if m3.error or m3.violated:
        raise Machinery("Find model check (clean paths, depth %d) failed: %s %s" % (d_all + 1, m3.violated, (m3.error or "")[:1500]))
    m.distinct += m3.distinct
    m.generated += m3.generated
    pin = mc(ctx, 1, "pinned", liveness=True, timeout=600, spellings="CleanOnly")
    if not pin.violated:
        raise Machinery("vacuity probe: pinned Find variant not refuted")
    strs = mc(ctx, 1, "strings", liveness=True, timeout=600)
    if strs.violated != "Correct":
        raise Machinery("vacuity probe: the walk that compares path strings is not refuted by the spellings (%s)" % (strs.violated or strs.error))
    noab = mc(ctx, 1, "noabove", liveness=False, timeout=600, spellings="CleanOnly")
    if noab.violated != "Correct":
        raise Machinery("vacuity probe: the walk that climbs above the stop directory is not refuted (%s)" % (noab.violated or noab.error))
    log("Find MC: %d distinct states (every configuration, start, stop); terminates; pinned variant refuted (%s)" % (m.distinct, pin.violated))
    proof = None
    if tier != "quick":
        proof = tlaps_proof(ctx)
        log("FindProof (TLAPS): %d obligations, all proved: CorrectP and NeverAboveStop hold for every Depth" % proof[0])
    scen = scenarios(tier, ctx.seed)
    nsh = vlib.NCPU
    shards = [scen[i::nsh] for i in range(nsh)]
    pairs = []
    with ThreadPoolExecutor(max_workers=nsh) as ex:
        for k, out in enumerate(ex.map(lambda k: drive(ctx, driver, shards[k], k), range(nsh))):
            pairs += list(zip(shards[k], out))
    notrun = sum(1 for s, r in pairs if r.get("outcome") == "not-run")
    pairs = [(s, r) for s, r in pairs if r.get("outcome") != "not-run"]
    recs = [tla_rec(s, r) for s, r in pairs]
    log("C17: %d real Find calls (%d not run after repeated hangs)" % (len(recs), notrun))
    chunk = 50000
    bad, ncf, nun = [], 0, 0
    for k in range(0, len(recs), chunk):
        v = judge(ctx, recs[k:k + chunk], k)
        bad += [pairs[k + i - 1] for i in v["Conforms_C17"]]
        ncf += v["nConstrainedFound"]
        nun += v["nUnconstrained"]
    # binding self-test
    badids = {s["id"] for s, _ in bad}
    good = [r for r in recs if r["id"] not in badids and r["outcome"] == "found" and r["start"] >= 1 and r["stop"] >= 0 and r["stop"] <= r["start"]]
    st = None
    if good:
        c = dict(good[0], level=good[0]["level"] - 1 if good[0]["level"] > 0 else good[0]["level"] + 1)
        c2 = dict(good[0], outcome="hang")
        v = judge(ctx, [good[0], c, c2], 99)
        st = v["Conforms_C17"] == [2, 3]
        if not st:
            raise Machinery("binding self-test failed for FindJudge: %s" % v["Conforms_C17"])
    seen = set()
    for s, r in bad:
        shape = (r.get("outcome"), s["start"] == s["stop"], s["start"] == -1 or s["stop"] == -1 or s["stop"] > s["start"],
                 s["levels"][s["stop"]]["before"] if s["stop"] >= 0 else None, s["startSp"], s["stopSp"], s["through"], len(s["levels"]) > 8, s.get("uname", ""))
        if shape in seen:
            continue
        seen.add(shape)
        again = drive(ctx, driver, [s], 900 + len(seen))[0]
        v = judge(ctx, [tla_rec(s, again)], 98)
        if not v["Conforms_C17"]:
            ctx.unreproduced = getattr(ctx, "unreproduced", 0) + 1
            continue
        vlib.report(ctx, "Conforms_C17:%s:%s:%s-%s" % (again.get("outcome"), "unconstrained" if shape[2] else ("start=stop" if shape[1] else "below"), s["startSp"], s["stopSp"]),
                    "Find(start=L%s [%s], stop=L%s [%s], cwd=L%s, U under L%s%s) over %d levels %s (U=%s) => %s level=%s" % (
                        s["start"], s["startSp"], s["stop"], s["stopSp"], s["cwd"], s["ua"], (", chain through directories named spokfile" if s["through"] else "") + ({"pfx": ", U named like its chain sibling plus a letter", "short": ", U named like its chain sibling minus a letter"}.get(s.get("uname", ""), "")),
                        len(s["levels"]), [l for l in s["levels"] if l["spok"] != "none"][:6] if len(s["levels"]) > 8 else s["levels"], s["u"],
                        again.get("outcome"), again.get("level")),
                    {"property": "C17", "family": "find", "scenario": s, "observed": again})
        if len(ctx.violations) >= 6:
            break
    rnd = random.Random(ctx.seed)
    vlib.write_evidence(ctx, "model_checking", {
        "states": m.distinct, "transitions": m.generated,
        "traces_validated_against_impl": len(recs),
        "samples": [{"scenario": {k: s[k] for k in ("levels", "u", "start", "stop", "startSp", "stopSp", "cwd")}, "observed": {k: r.get(k) for k in ("outcome", "level")}} for s, r in rnd.sample(pairs, 3)],
        "evaluations": len(recs),
        **({"obligations": proof[0], "discharged": proof[1], "proof": {"module": "FindProof", "tool": "tlapm", "theorems": ["Safety", "CorrectForEveryDepth", "NeverAbove", "RankDecreases"],
                                                                    "scope": "Variant = fixed, every Depth in Nat, every set of spellings"}} if proof else {}),
        "distinct_nontrivial": ncf + nun,
        "rule": "directory chains of depth <= %d (each level: no / regular-file / directory entry named spokfile, other entries sorting before and/or after "
                "it where they can matter) x every start level x every stop in {each level, an unrelated directory}, built on disk and searched with "
                "file.Find under a watchdog; besides the clean absolute spelling of the two paths, samples with a trailing separator, `.`/`x/..` elements and "
                "paths relative to every working directory at or above them (%d calls); near-miss entry names (Spokfile, spokfil, spokfile.bak, spokfile.d/), "
                "chains running through directories that are themselves named spokfile, and chains 40 and 130 levels deep; distinct_nontrivial = calls with start at or below stop that must find a spokfile (%d) + calls whose start is "
                "not below stop (%d), as computed by TLC" % (2 if tier == "quick" else 4, sum(1 for s, _ in pairs if (s["startSp"], s["stopSp"]) != ("clean", "clean")), ncf, nun),
        "model": {"module": "Find", "depth": 2 if tier == "quick" else 3, "distinct_states": m.distinct, "liveness": "Terminates",
                  "spellings": "all 9 pairs at depth %d; clean at depth %d" % (d_all, d_all + 1),
                  "pinned_variant_refuted_by": pin.violated, "strings_variant_refuted_by": strs.violated, "noabove_variant_refuted_by": noab.violated},
        "judge": {"module": "FindJudge", "relation": "Conforms_C17", "not_run_after_hangs": notrun},
        "selftest_corrupted_record_rejected": st,
        "exhaustive": tier == "quick",
    }, assumptions=["no entry named spokfile exists above the sandbox directory (checked by the driver)", "a call that does not return within 5 s is a hang"])


def replay(ctx, path):
    rp = json.load(open(path))
    driver = vlib.build_driver(ctx)
    s = rp["scenario"]
    s.setdefault("startSp", "clean")
    s.setdefault("stopSp", "clean")
    s.setdefault("cwd", -2)
    s.setdefault("through", False)
    s.setdefault("ua", -2)
    again = drive(ctx, driver, [s], 0)[0]
    v = judge(ctx, [tla_rec(s, again)])
    log("observed: %s" % again)
    if v["Conforms_C17"]:
        print("VIOLATION property=C17 replay=%s" % path, flush=True)
        ctx.violations.append({"replay": path})
