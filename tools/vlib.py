"""Shared machinery for /verif/tools/check: building the drivers from /repo's working tree,
running TLC, writing evidence, reporting violations / known findings.

Exit codes (DESIGN 4.7): 0 held, 1 violation (VIOLATION line printed), 2 machinery failure.
"""
import hashlib
import json
import os
import re
import shutil
import subprocess
import sys
import tempfile
import time

VERIF = os.path.dirname(os.path.dirname(os.path.abspath(__file__)))
REPO = os.environ.get("VERIF_REPO", "/repo")
SPEC = os.path.join(VERIF, "spec")
HARNESS = os.path.join(VERIF, "harness")
OUT = os.environ.get("VERIF_OUT", VERIF)          # where evidence/ and replays/ are written (default: /verif)
TLA_CP = "/opt/veriftools/tla/tla2tools.jar:/opt/veriftools/tla/CommunityModules-deps.jar"
NCPU = os.cpu_count() or 4

GOENV = dict(GOFLAGS="-mod=mod", GOPROXY="off", GOSUMDB="off", GOTOOLCHAIN="local")


class Machinery(Exception):
    """Something in the checking machinery failed: exit 2, never a statement about spok."""


def scratch_base():
    """scratch lives in RAM (/dev/shm, ~8x faster for the many small sandbox trees) when there is room, else in the temp dir"""
    d = os.environ.get("VERIF_SCRATCH")
    if d:
        return d
    try:
        st = os.statvfs("/dev/shm")
        if st.f_bavail * st.f_frsize > 12 * 2**30 and os.access("/dev/shm", os.W_OK):
            return "/dev/shm"
    except OSError:
        pass
    return None


class Ctx:
    def __init__(self, pid, tier, seed):
        self.pid = pid
        self.tier = tier
        self.seed = seed
        self.t0 = time.time()
        self.scratch = tempfile.mkdtemp(prefix="verif-%s-" % pid, dir=scratch_base())
        self.notes = []
        self.violations = []      # list of dict(replay=path, sig=..., text=...)
        self.known = []           # KNOWN-FINDING lines printed
        self._bins = {}

    def sub(self, name):
        d = os.path.join(self.scratch, name)
        os.makedirs(d, exist_ok=True)
        return d

    def cleanup(self):
        # sandboxes may contain files owned by nobody / odd modes
        subprocess.run(["chmod", "-R", "u+rwx", self.scratch], stderr=subprocess.DEVNULL)
        shutil.rmtree(self.scratch, ignore_errors=True)

    def wall(self):
        return round(time.time() - self.t0, 2)


_T0 = time.time()


def log(*a):
    print("[%6.1fs]" % (time.time() - _T0), *a, file=sys.stderr, flush=True)


def goenv():
    e = dict(os.environ)
    e.update(GOENV)
    e.setdefault("GOCACHE", os.path.expanduser("~/.cache/go-build"))
    return e


def sync_gosum():
    src = os.path.join(REPO, "go.sum")
    dst = os.path.join(HARNESS, "go.sum")
    try:
        if open(src, "rb").read() != (open(dst, "rb").read() if os.path.exists(dst) else b""):
            shutil.copyfile(src, dst)
    except OSError as e:
        raise Machinery("cannot copy go.sum: %s" % e)


def harness_dir(ctx):
    """the harness module; when VERIF_REPO points at another checkout (seeded-change trials) a scratch copy whose replace
    directive names that checkout"""
    if REPO == "/repo":
        sync_gosum()
        return HARNESS
    d = os.path.join(ctx.scratch, "harness")
    if not os.path.isdir(d):
        shutil.copytree(HARNESS, d)
        gm = open(os.path.join(d, "go.mod")).read().replace("=> /repo", "=> " + REPO)
        open(os.path.join(d, "go.mod"), "w").write(gm)
        shutil.copyfile(os.path.join(REPO, "go.sum"), os.path.join(d, "go.sum"))
    return d


def build_driver(ctx, race=False):
    key = "drive-race" if race else "drive"
    if key in ctx._bins:
        return ctx._bins[key]
    hd = harness_dir(ctx)
    out = os.path.join(ctx.scratch, key)
    cmd = ["go", "build", "-tags", "verif"] + (["-race"] if race else []) + ["-o", out, "./cmd/drive"]
    r = subprocess.run(cmd, cwd=hd, env=goenv(), capture_output=True, text=True)
    if r.returncode != 0:
        raise Machinery("driver build failed (does /repo still compile with -tags verif?):\n" + r.stderr[-4000:])
    ctx._bins[key] = out
    return out


def build_spok(ctx):
    if "spok" in ctx._bins:
        return ctx._bins["spok"]
    out = os.path.join(ctx.scratch, "spok")
    r = subprocess.run(["go", "build", "-tags", "verif", "-o", out, "./cmd/spok"], cwd=REPO, env=goenv(),
                       capture_output=True, text=True)
    if r.returncode != 0:
        raise Machinery("spok build failed:\n" + r.stderr[-4000:])
    os.chmod(out, 0o755)
    ctx._bins["spok"] = out
    return out


# ---------------------------------------------------------------- TLC

class TLCResult:
    def __init__(self):
        self.rc = None
        self.out = ""
        self.generated = 0
        self.distinct = 0
        self.depth = 0
        self.violated = None      # invariant / property name
        self.error = None         # machinery-level TLC error text
        self.trace = None         # list of states (dict var->value) when dumped as json
        self.prints = []          # lines printed by PrintT
        self.coverage0 = []
        self.wall = 0.0
        self.timed_out = False


def tlc(ctx, module, cfg, files=(), workers=None, timeout=600, simulate=None, depth=None, extra=(),
        heap="6g", coverage=False, workdir=None, dump_trace=True, deque=False, seed=None):
    """Run TLC on spec/<module>.tla with config text or path `cfg` in a scratch copy of the spec dir.
    files: extra (name, path-or-bytes) data files placed next to the spec."""
    wd = workdir or tempfile.mkdtemp(prefix="tlc-", dir=ctx.scratch)
    for f in os.listdir(SPEC):
        if f.endswith(".tla"):
            shutil.copyfile(os.path.join(SPEC, f), os.path.join(wd, f))
    if cfg and "\n" not in cfg and os.path.isfile(os.path.join(SPEC, cfg)):
        shutil.copyfile(os.path.join(SPEC, cfg), os.path.join(wd, "run.cfg"))
    else:
        with open(os.path.join(wd, "run.cfg"), "w") as f:
            f.write(cfg)
    for name, src in files:
        dst = os.path.join(wd, name)
        if isinstance(src, bytes):
            with open(dst, "wb") as f:
                f.write(src)
        elif os.path.abspath(src) != os.path.abspath(dst):
            if os.path.exists(dst):
                os.remove(dst)
            os.symlink(os.path.abspath(src), dst)
    tmpd = os.path.join(wd, "jtmp")
    os.makedirs(tmpd, exist_ok=True)
    jopts = "-Djava.io.tmpdir=%s" % tmpd
    if deque:
        jopts += " -Dtlc2.tool.queue.IStateQueue=StateDeque"
    env = dict(os.environ)
    env["JAVA_TOOL_OPTIONS"] = jopts
    cmd = ["java", "-XX:+UseParallelGC", "-Xmx" + heap, "-Xss512m", "-cp", TLA_CP, "tlc2.TLC",
           "-metadir", os.path.join(wd, "meta"), "-config", "run.cfg",
           "-workers", str(workers or "auto")]
    if simulate is not None:
        cmd += ["-simulate", simulate]
        if depth:
            cmd += ["-depth", str(depth)]
    if seed is not None:
        cmd += ["-seed", str(seed)]
    if coverage:
        cmd += ["-coverage", "1"]
    tracefile = os.path.join(wd, "trace.json")
    if dump_trace:
        cmd += ["-dumpTrace", "json", tracefile]
    cmd += list(extra) + [module + ".tla"]
    res = TLCResult()
    t0 = time.time()
    try:
        p = subprocess.run(cmd, cwd=wd, env=env, capture_output=True, text=True, timeout=timeout)
        res.rc = p.returncode
        res.out = p.stdout + p.stderr
    except subprocess.TimeoutExpired as e:
        res.timed_out = True
        res.out = (e.stdout or b"").decode("utf8", "replace") if isinstance(e.stdout, bytes) else (e.stdout or "")
        subprocess.run(["pkill", "-f", "metadir %s" % os.path.join(wd, "meta")], stderr=subprocess.DEVNULL)
        res.error = "TLC timed out after %ss" % timeout
    res.wall = time.time() - t0
    o = res.out
    m = re.findall(r"(\d+) states generated, (\d+) distinct states found", o)
    if m:
        res.generated, res.distinct = int(m[-1][0]), int(m[-1][1])
    m = re.search(r"depth of the complete state graph search is (\d+)", o)
    if m:
        res.depth = int(m.group(1))
    m = re.search(r"Invariant (\S+) is violated", o)
    if m:
        res.violated = m.group(1)
    m = re.search(r"Action property (\S+) is violated|Temporal properties were violated", o)
    if m and not res.violated:
        res.violated = m.group(1) or "temporal"
    if "Deadlock reached" in o and not res.violated:
        res.violated = "Deadlock"
    res.prints = [l for l in o.splitlines() if l.startswith("<<") or l.startswith('"')]
    if coverage:
        res.coverage0 = re.findall(r"^\s*<(\w+) line[^>]*>: 0:0$", o, re.M)
    if res.violated and dump_trace and os.path.exists(tracefile):
        try:
            res.trace = json.load(open(tracefile))
        except Exception as e:  # noqa
            res.trace = None
    if not res.timed_out and res.violated is None:
        if ("Model checking completed. No error has been found" not in o
                and "Finished in" not in o) or re.search(r"\bError:", o):
            mm = re.search(r"Error:.*", o, re.S)
            res.error = (mm.group(0) if mm else o)[-3000:]
    res.workdir = wd
    return res


TLAPS_LIB = "/opt/veriftools/tlapm/lib/tlapm/stdlib"      # TLAPS.tla lives in the proof system's library, not in tla2tools


def sany_all():
    bad = []
    for f in sorted(os.listdir(SPEC)):
        if f.endswith(".tla"):
            jopts = ["-DTLA-Library=" + TLAPS_LIB] if "TLAPS" in open(os.path.join(SPEC, f)).read().split("====")[0].split("EXTENDS", 1)[-1].split("\n")[0] else []
            r = subprocess.run(["java"] + jopts + ["-cp", TLA_CP, "tla2sany.SANY", f], cwd=SPEC, capture_output=True, text=True)
            if "Semantic errors" in r.stdout or "Parse Error" in r.stdout or "Fatal" in r.stdout or r.returncode != 0:
                bad.append((f, r.stdout[-1500:]))
    return bad


# ---------------------------------------------------------------- evidence / findings

def known_findings():
    p = os.path.join(VERIF, "known_findings.json")
    if not os.path.exists(p):
        return {"findings": [], "fixed": []}
    return json.load(open(p))


def write_evidence(ctx, level, coverage, assumptions=(), extra=None):
    ev = {
        "property_id": ctx.pid,
        "tier": ctx.tier,
        "seed": ctx.seed,
        "level": level,
        "coverage": coverage,
        "assumptions": list(assumptions),
        "wall_s": ctx.wall(),
        "violations": len(ctx.violations),
    }
    # the schema's own keys have fixed types: catch a clash before the file is written
    for k in ("evaluations", "distinct_nontrivial", "states", "transitions", "traces_validated_against_impl", "obligations", "discharged", "programs",
              "disagreements_checked"):
        if k in coverage and not isinstance(coverage[k], int):
            raise Machinery("evidence coverage key %r must be an integer" % k)
    if not isinstance(coverage.get("samples", []), list) or not coverage.get("samples"):
        raise Machinery("evidence coverage.samples must be a non-empty list")
    if extra:
        ev.update(extra)
    if ctx.notes:
        ev["notes"] = ctx.notes
    if ctx.known:
        ev["known_findings_reported"] = ctx.known
    d = os.path.join(OUT, "evidence")
    os.makedirs(d, exist_ok=True)
    tmp = os.path.join(d, ".%s.json.tmp" % ctx.pid)
    with open(tmp, "w") as f:
        json.dump(ev, f, indent=1, sort_keys=True, default=str)
        f.write("\n")
    os.replace(tmp, os.path.join(d, "%s.json" % ctx.pid))


def report(ctx, sig, what, replay_obj):
    """Report one confirmed violation. `sig` is the stable signature used to match known findings."""
    kf = known_findings()
    for k in kf.get("findings", []):
        if k.get("property") == ctx.pid and k.get("signature") == sig:
            line = "KNOWN-FINDING: property=%s %s" % (ctx.pid, k.get("what", what))
            if line not in ctx.known:
                print(line, flush=True)
                ctx.known.append(line)
            return False
    d = os.path.join(OUT, "replays", ctx.pid)
    os.makedirs(d, exist_ok=True)
    body = json.dumps(replay_obj, sort_keys=True, indent=1, default=str)
    h = hashlib.sha256((sig + body).encode()).hexdigest()[:12]
    path = os.path.join(d, "%s.json" % h)
    with open(path, "w") as f:
        f.write(body + "\n")
    print("VIOLATION property=%s replay=%s" % (ctx.pid, path), flush=True)
    log("  " + what)
    ctx.violations.append({"replay": path, "sig": sig, "what": what})
    return True


def run_cmd(cmd, timeout=None, cwd=None, env=None, input=None):
    try:
        p = subprocess.run(cmd, cwd=cwd, env=env, capture_output=True, text=True, timeout=timeout, input=input)
        return p.returncode, p.stdout, p.stderr
    except subprocess.TimeoutExpired as e:
        return None, (e.stdout or ""), (e.stderr or "")


def read_ndjson(path):
    out = []
    with open(path) as f:
        for line in f:
            line = line.strip()
            if line:
                out.append(json.loads(line))
    return out


def write_ndjson(path, recs):
    with open(path, "w") as f:
        for r in recs:
            f.write(json.dumps(r, sort_keys=True, separators=(",", ":")) + "\n")
