"""C01 C02 C14 C10 (and C09's second clause): the run / cache family.

code -> spec (X->J): the Go explorer enumerates the REAL reachable state space of a small project (byte-exact
   snapshots of the project directory; every edit / cache removal / torn cache / invocation [/ kill point] from every
   state, to a fixpoint) and TLC model-checks the recorded graph in product with the ghost history of SpokRunEnv.
spec (MC): the protocol model SpokRun.tla (what the code is designed to do) is checked against the same Observe/Violations
   operators; spec -> code (G->D->J): TLC -simulate behaviours of that model are replayed into the real code and the
   model's predicted observations compared (a disagreement is model drift, reported, never a verdict).
"""
import itertools
import json
import os
import random
import subprocess
from concurrent.futures import ThreadPoolExecutor

import vlib
from vlib import Machinery, log

INVS = {
    "C01": ["Inv_C01", "Inv_SkipRan"],
    "C02": ["Inv_C02", "Inv_C02n", "Inv_SkipRan"],
    "C14": ["Inv_C14a", "Inv_C14b"],
    "C10": ["Inv_C10"],
    "C09": ["Inv_C09b"],
}


def T(name, lit=(), glob=(), deps=(), cand=()):
    return {"name": name, "lit": list(lit), "glob": list(glob), "deps": list(deps), "globcand": list(cand)}


def subsets(xs, nonempty=False):
    out = []
    for n in range(1 if nonempty else 0, len(xs) + 1):
        out += [list(c) for c in itertools.combinations(xs, n)]
    return out


def mkprog(name, tasks, files, ncontents=2, init=None, reqsets=None, failsets=None):
    names = [t["name"] for t in tasks]
    et = next((t["name"] for t in tasks if t["lit"] or t["glob"]), names[0])
    return {"name": name, "tasks": tasks, "files": files, "ncontents": ncontents,
            "init": init or {f: 0 for f in files},
            "reqsets": reqsets or subsets(names, True), "failsets": failsets or subsets(names),
            # one task whose first command cannot be run at all (the runner returns an error instead of an exit status)
            "errsets": [[et]], "errfail": [["!" + et]], "errpairs": [["!" + et, et]],
            "crash": False, "tear": [], "reps": 2, "maxstates": 40000}


def programs(tier, pid):
    P1 = mkprog("P1", [T("A", lit=["a.txt"]), T("B", lit=["b.txt"])], ["a.txt", "b.txt"])
    P2 = mkprog("P2", [T("A", lit=["a.txt"]), T("B", lit=["a.txt"])], ["a.txt"], ncontents=3)
    P3 = mkprog("P3", [T("A", lit=["a.txt"]), T("N"), T("B", lit=["b.txt"], deps=["A"])], ["a.txt", "b.txt"])
    P4 = mkprog("P4", [T("G", glob=["*.x"], cand=["x1.x", "x2.x"]), T("A", lit=["a.txt"])], ["a.txt", "x1.x", "x2.x"],
                init={"a.txt": 0, "x1.x": 0, "x2.x": 9})
    P5 = mkprog("P5", [T("C", deps=["B"]), T("B", lit=["b.txt"], deps=["A"]), T("A", lit=["a.txt"])], ["a.txt", "b.txt"])
    P6 = mkprog("P6", [T("M", lit=["a.txt"], glob=["*.x", "sub/*.x"], cand=["x1.x", "sub/y.x"])], ["a.txt", "x1.x", "sub/y.x", ".h.x"],
                init={"a.txt": 0, "x1.x": 0, "sub/y.x": 9, ".h.x": 0})
    P8 = mkprog("P8", [T("M", lit=["a.txt"], glob=["*.txt"], cand=["a.txt", "b.txt"]), T("N")], ["a.txt", "b.txt"],
                init={"a.txt": 0, "b.txt": 9})          # the same file named twice (literally and by the glob)
    P9 = mkprog("P9", [T("A", lit=["a.txt"]), T("B", lit=["a.txt", "b.txt"], deps=["A"])], ["a.txt", "b.txt"])   # a shared file and one of its own
    # a generator: G (no file dependency, always runs) writes g.x; B depends on G and on every *.x -- B's inputs are what G leaves behind
    P10 = mkprog("P10", [T("G"), T("B", glob=["*.x"], cand=["a.x", "g.x"], deps=["G"])], ["a.x", "g.x"], init={"a.x": 0, "g.x": 9},
                 reqsets=[["B"], ["G"], ["G", "B"]], failsets=[[], ["B"]])
    P10["effects"] = {"G": [["g.x", 1]]}
    # a rewriting task between two tasks that share a file: L reads f.txt, G (after L) makes f.txt a copy of s.txt, K (after G) reads
    # f.txt -- what K sees is not what L saw in the same run (a per-run memo of file contents records the wrong digest for K)
    P11 = mkprog("P11", [T("L", lit=["f.txt"]), T("G", deps=["L"]), T("K", lit=["f.txt"], deps=["G"])], ["f.txt", "s.txt"], init={"f.txt": 0, "s.txt": 1},
                 reqsets=[["K"], ["L"], ["G"]], failsets=[[], ["K"]])
    P11["effects"] = {"G": [["f.txt", "=s.txt"]]}
    # dependency files whose names contain glob metacharacters other than '*' (a Next.js page, a template): they are literal files
    P12 = mkprog("P12", [T("A", lit=["p[1].txt", "a.txt"]), T("B", lit=["q{x}.txt"])], ["p[1].txt", "a.txt", "q{x}.txt"])
    P7 = mkprog("P7", [T("A", lit=["a.txt"]), T("B", lit=["b.txt"]), T("D", lit=["a.txt", "b.txt"], deps=["A", "B"])], ["a.txt", "b.txt"])
    if pid == "C10":
        # kill points multiply the alphabet: smaller programs
        Q1 = mkprog("Q1", [T("A", lit=["a.txt"]), T("B", lit=["b.txt"])], ["a.txt", "b.txt"])
        Q2 = mkprog("Q2", [T("A", lit=["a.txt"]), T("B", lit=["a.txt"], deps=["A"])], ["a.txt"], ncontents=3)
        Q3 = mkprog("Q3", [T("G", glob=["*.x"], cand=["x1.x"]), T("N")], ["x1.x"], ncontents=3)
        Q4 = mkprog("Q4", [T("A", lit=["a.txt"]), T("N"), T("B", lit=["b.txt"], deps=["A"])], ["a.txt", "b.txt"])
        ps = [Q1, Q2, Q3] if tier == "quick" else [Q1, Q2, Q3, Q4, P4]
        for p in ps:
            p["crash"] = True
            p["maxstates"] = 12000 if tier == "quick" else 150000
            p["tear"] = [0, 1, 20, -2] if tier == "quick" else [0, 1, 2, 3, 8, 16, 24, 32, 48, 64, 80, 96, 112, 128, 160, -3, -2]
            if tier != "quick" and p["name"] in ("Q4", "P4"):
                p["tear"] = [0, 1, 20, -2]
            p["reps"] = 1 if tier == "quick" else 2
            names = [t["name"] for t in p["tasks"]]
            p["failsets"] = [[]] + [[n] for n in names]
        return ps
    if tier == "quick":
        ps = [P1, P5, P4] if pid == "C14" else [P1, P3, P4, P2, P8, P9, P10, P11, P12]
    else:
        for p in (P1, P3, P5, P7):
            p["ncontents"] = 3
        ps = [P1, P2, P3, P4, P5, P6, P7, P8, P9, P10, P11, P12]
        for p in ps:
            p["reps"] = 4
    return ps


def explore(ctx, driver, prog):
    d = ctx.sub("run-" + prog["name"])
    pj = os.path.join(d, "program.json")
    json.dump(prog, open(pj, "w"))
    out = os.path.join(d, "graph.ndjson")
    root = os.path.join(d, "proj")
    p = subprocess.run([driver, "run-explore", "--root", root, "--program", pj, "--out", out], capture_output=True, text=True)
    if p.returncode != 0:
        raise Machinery("run-explore failed for %s: rc=%s %s" % (prog["name"], p.returncode, p.stderr[-3000:]))
    summ = json.loads(p.stdout.strip().splitlines()[-1])
    return d, summ


def judge_cfg(invs):
    return "SPECIFICATION TSpec\nVIEW TView\nINVARIANTS Inv_EnvSync %s\nCHECK_DEADLOCK FALSE\n" % " ".join(invs)


def judge(ctx, d, invs, workers=4, timeout=2700):
    r = vlib.tlc(ctx, "SpokRunTrace", judge_cfg(invs), files=[("program.json", os.path.join(d, "program.json")),
                                                              ("graph.ndjson", os.path.join(d, "graph.ndjson"))],
                 workers=workers, timeout=timeout, heap="6g")
    if r.error:
        raise Machinery("SpokRunTrace failed: %s" % r.error)
    if r.violated == "Inv_EnvSync":
        raise Machinery("driver and specification disagree on the environment (Inv_EnvSync)")
    return r


def tla_states(trace):
    """-dumpTrace json -> list of {var: value}."""
    if isinstance(trace, dict) and "counterexample" in trace:
        trace = trace["counterexample"]
    st = trace.get("state") if isinstance(trace, dict) else trace
    out = []
    for s in st:
        if isinstance(s, list) and len(s) == 2 and isinstance(s[1], dict):
            out.append(s[1])
        elif isinstance(s, dict):
            out.append(s)
    return out


def actions_from_trace(graph, trace):
    sts = tla_states(trace)
    acts = []
    for a, b in zip(sts, sts[1:]):
        e = graph[a["node"]]["out"][b["eidx"] - 1]
        acts.append(e)
    return acts


def to_replay_actions(edges):
    acts = []
    for e in edges:
        a = {"act": e["act"]}
        if e["act"] == "edit":
            a.update(f=e["f"], c=e["c"])
        elif e["act"] == "tear":
            a.update(k=e["k"])
        elif e["act"] == "invoke":
            a.update(req=e["req"], force=e["force"], failing=e["failing"], crash=e.get("crash") or {"kind": "", "k": 0},
                     want=json.dumps([e["reports"], e["ran"], e["outcome"], e["errcls"]], separators=(",", ":")))
        acts.append(a)
    return acts


def human(edges):
    out = []
    for e in edges:
        if e["act"] == "edit":
            out.append("%s:=%s" % (e["f"], "absent" if e["c"] == 9 else "c%d" % e["c"]))
        elif e["act"] == "rmcache":
            out.append("rm .spok")
        elif e["act"] == "tear":
            out.append("tear cache.json to %d bytes" % e["k"] if e["k"] > -100 else "leave an empty .spok/cache.json%s behind (kill inside a cache write)" % {-101: ".tmp", -102: ".lock"}[e["k"]])
        else:
            s = "spok %s%s" % (" ".join(e["req"]), " --force" if e["force"] else "")
            if e["failing"]:
                s += " [failing: %s]" % ",".join(e["failing"])
            if e.get("killed"):
                s += " [KILLED at %s]" % e.get("at")
            s += " => " + (", ".join("%s:%s" % (r["t"], "skipped" if r["skipped"] else "ran") for r in e["reports"])
                           or e["outcome"] + (":" + e["err"][:80] if e.get("err") else ""))
            out.append(s)
    return "; ".join(out)


def replay_history(ctx, driver, prog, acts, invs):
    """Re-execute the history from an empty project in a fresh directory and let TLC judge the linear graph."""
    d = ctx.sub("replay-%d" % random.getrandbits(30))
    json.dump(prog, open(os.path.join(d, "program.json"), "w"))
    json.dump(acts, open(os.path.join(d, "actions.json"), "w"))
    p = subprocess.run([driver, "run-replay", "--root", os.path.join(d, "proj"), "--program", os.path.join(d, "program.json"),
                        "--actions", os.path.join(d, "actions.json"), "--out", os.path.join(d, "graph.ndjson")],
                       capture_output=True, text=True)
    if p.returncode != 0:
        raise Machinery("run-replay failed: %s" % p.stderr[-2000:])
    r = judge(ctx, d, invs, workers=1, timeout=300)
    g = vlib.read_ndjson(os.path.join(d, "graph.ndjson"))
    return r, g


def guided_histories(prog):
    """The obvious adversarial shapes, systematically: run / edit / run-with-a-twist / revert / run, for every dependency file, where the
    twist is --force, a failing command, a kill at every hook point or inside every command, or a torn cache file afterwards."""
    tasks = [t["name"] for t in prog["tasks"]]
    allreq = prog["reqsets"][-1] if prog["reqsets"] else tasks
    def run(force=False, failing=(), crash=None, req=None):
        return {"act": "invoke", "req": req or allreq, "force": force, "failing": list(failing), "crash": crash or {"kind": "", "k": 0}}
    twists = [[run()], [run(force=True)]] + [[run(failing=[t])] for t in tasks] + [[run(force=True, failing=[t])] for t in tasks]
    twists += [[run(failing=["!" + t])] for es in prog.get("errsets", []) for t in es] + [[run(force=True, failing=["!" + t])] for es in prog.get("errsets", []) for t in es]
    if prog["crash"]:
        twists += [[run(crash={"kind": "event", "k": k})] for k in range(1, 13)] + [[run(crash={"kind": "cmd", "k": j})] for j in range(1, 2 * len(tasks) + 1)]
        twists += [[run(), {"act": "tear", "k": k}] for k in (0, 1, 20, 60, 100)]
        # what a kill inside an "atomic" cache write leaves behind: an empty temporary / lock file next to the cache file (k = -101, -102)
        twists += [[run(), {"act": "tear", "k": k}] for k in (-101, -102)] + [[{"act": "tear", "k": k}, run()] for k in (-101, -102)]
    out = []
    for f in prog["files"]:
        c0 = prog["init"].get(f, 0)
        c1 = 1 if c0 != 1 else 0
        e1, e0 = {"act": "edit", "f": f, "c": c1}, {"act": "edit", "f": f, "c": c0 if c0 != 9 else 0}
        gone = {"act": "edit", "f": f, "c": 9}
        for tw in twists:
            out.append([run(), e1] + tw + [e0, run()])                      # success, edit, twist, revert, run
            out.append([e1, run(), e0] + tw + [e1, run()])                  # the same one edit later
            out.append([run(), e1] + tw + [run(), e0, run()])               # twist, plain run, then revert
            out.append([run(), gone] + tw + [e0, run()])                    # the file disappears and comes back
            for t in tasks:
                out.append([run(req=[t]), e1] + tw + [e0, run(req=[t])])
    # de-duplicate
    seen, uniq = set(), []
    for h in out:
        k = json.dumps(h, sort_keys=True)
        if k not in seen:
            seen.add(k)
            uniq.append(h)
    return uniq


def random_walks(ctx, driver, prog, invs, nwalks, length):
    """Cheap first stage: random histories over the same action alphabet, executed for real one after the other (no state merging)
    and judged as a forest by the same TLC invariants.  It does not replace the exhaustive exploration; it finds shallow violations in
    seconds even when a change inflates the real state space."""
    rnd = random.Random("%s-%s-%s" % (ctx.seed, prog["name"], ctx.pid))
    files, tasks = prog["files"], [t["name"] for t in prog["tasks"]]
    hists = []
    for _ in range(nwalks):
        acts, cur = [], dict(prog["init"])
        for _ in range(length):
            x = rnd.random()
            if x < 0.38:
                f = rnd.choice(files)
                c = rnd.choice([c for c in list(range(prog["ncontents"])) + [9] if c != cur.get(f, 9)])
                cur[f] = c
                acts.append({"act": "edit", "f": f, "c": c})
            elif x < 0.42:
                acts.append({"act": "rmcache"})
            elif x < 0.52 and prog["crash"]:
                acts.append({"act": "tear", "k": rnd.choice([0, 1, 2, 5, 20, 40, 60, 90, 100, 120, 150, -101, -102])})
            else:
                a = {"act": "invoke", "req": rnd.choice(prog["reqsets"]), "force": rnd.random() < 0.25, "failing": rnd.choice(prog["failsets"] + [["!" + t for t in es] for es in prog.get("errsets", [])]) if rnd.random() < 0.3 else [],
                     "crash": {"kind": "", "k": 0}}
                if prog["crash"] and rnd.random() < 0.35:
                    a["crash"] = {"kind": rnd.choice(["event", "event", "cmd"]), "k": rnd.randint(1, 12)}
                acts.append(a)
        hists.append(acts)
    hists = guided_histories(prog) + hists
    d = ctx.sub("walk-" + prog["name"])
    json.dump(prog, open(os.path.join(d, "program.json"), "w"))
    json.dump(hists, open(os.path.join(d, "hists.json"), "w"))
    p = subprocess.run([driver, "run-replay", "--batch", "--root", os.path.join(d, "proj"), "--program", os.path.join(d, "program.json"),
                        "--actions", os.path.join(d, "hists.json"), "--out", os.path.join(d, "graph.ndjson")], capture_output=True, text=True)
    if p.returncode != 0:
        raise Machinery("run-replay --batch (random walks) failed: %s" % p.stderr[-2000:])
    r = judge(ctx, d, invs, workers=2, timeout=900)
    out = {"walks": nwalks, "guided_histories": len(hists) - nwalks, "length": length, "tlc_distinct": r.distinct, "violation": None}
    if r.violated:
        g = vlib.read_ndjson(os.path.join(d, "graph.ndjson"))
        edges = [e for e in actions_from_trace(g, r.trace) if e["act"] != "reset"]
        out["violation"] = (r.violated, edges)
    return out


def check_program(ctx, driver, prog, invs):
    walks = random_walks(ctx, driver, prog, invs, 250 if ctx.tier == "quick" else 3000, 10 if ctx.tier == "quick" else 14)
    if walks["violation"]:
        # a real violating history is already in hand: confirm and report it instead of paying for the exhaustive exploration
        return {"prog": prog["name"], "summ": {"states": 0, "edges": 0, "invocations": walks["walks"] * walks["length"]}, "tlc": vlib.TLCResult(),
                "dir": None, "violation": walks["violation"], "walks": walks}
    d, summ = explore(ctx, driver, prog)
    r = judge(ctx, d, invs)
    if summ.get("truncated") and not r.violated:
        # the breadth-first exploration was cut off (far more real states than this program has on a correct tree): a violation found in
        # the explored part is real, but "held" cannot be claimed
        raise Machinery("exploration of %s was cut off at %s states and no violation was found in the explored part" % (prog["name"], summ["states"]))
    res = {"prog": prog["name"], "summ": summ, "tlc": r, "dir": d, "violation": None, "walks": walks}
    if r.violated:
        if not r.trace:
            raise Machinery("TLC reported %s but no trace was dumped" % r.violated)
        graph = vlib.read_ndjson(os.path.join(d, "graph.ndjson"))
        edges = actions_from_trace(graph, r.trace)
        res["violation"] = (r.violated, edges)
    return res


def nontrivial_edges(graph, pid):
    """Counted by the stated rule per property (distinct invocation edges)."""
    n = 0
    for nd in graph:
        for e in nd["out"]:
            if e["act"] != "invoke":
                continue
            if pid in ("C01", "C02", "C09"):
                ok = nd["cache"] == "ok" and len(e["req"]) >= 1 and (any(r["skipped"] for r in e["reports"]) or len(e["ran"]) >= 1) and nd["cache"] != "none"
            elif pid == "C14":
                ok = e["force"] and nd["cache"] == "ok"
            else:
                ok = e["killed"] or nd["cache"] == "torn"
            n += 1 if ok else 0
    return n


def run(ctx):
    pid = ctx.pid
    invs = INVS[pid]
    driver = vlib.build_driver(ctx)
    progs = programs(ctx.tier, pid)
    results = []
    with ThreadPoolExecutor(max_workers=min(len(progs), max(2, vlib.NCPU // 4))) as ex:
        for res in ex.map(lambda p: check_program(ctx, driver, p, invs), progs):
            results.append(res)
            log("%s: %s real states, %s edges, %s invocations; TLC product %d distinct / %d generated; %s" % (
                res["prog"], res["summ"]["states"], res["summ"]["edges"], res["summ"]["invocations"],
                res["tlc"].distinct, res["tlc"].generated, res["tlc"].violated or "holds"))
    # protocol model (design level) + spec->code replay
    mc = model_check(ctx, progs)
    killval = binary_kill_validation(ctx) if pid == "C10" else None
    forceval = binary_force_validation(ctx) if pid == "C14" else None
    # binding self-test: flip one recorded skipped flag / add a phantom skip -> TLC must reject
    st = selftest(ctx, results, progs, invs)
    for res, prog in zip(results, progs):
        if res["violation"]:
            inv, edges = res["violation"]
            acts = to_replay_actions(edges)
            r2, g2 = replay_history(ctx, driver, prog, acts, invs)
            if not r2.violated:
                ctx.unreproduced = getattr(ctx, "unreproduced", 0) + 1
                ctx.notes.append("unreproduced: %s %s" % (inv, human(edges)))
                continue
            edges2 = [n["out"][0] for n in g2 if n["out"]]
            nsteps = len(tla_states(r2.trace)) - 1 if r2.trace else len(edges2)
            edges2 = edges2[:nsteps]
            sig = "%s:%s:%s" % (r2.violated, prog["name"], json.dumps([{k: a[k] for k in a if k != "want"} for a in acts[:nsteps]], sort_keys=True))
            vlib.report(ctx, sig, "%s violated in %s by the real history: %s" % (r2.violated, prog["name"], human(edges2)),
                        {"property": pid, "family": "run", "invariant": r2.violated, "program": prog, "actions": acts[:nsteps],
                         "observed": edges2, "history": human(edges2)})
    graphs = [vlib.read_ndjson(os.path.join(r["dir"], "graph.ndjson")) if r["dir"] else [] for r in results]
    tot_states = sum(r["tlc"].distinct for r in results)
    tot_trans = sum(r["tlc"].generated for r in results)
    rnd = random.Random(ctx.seed)
    samples = []
    for g in graphs[:3]:
        inv_edges = [(n["id"], e) for n in g for e in n["out"] if e["act"] == "invoke" and (e["reports"] or e["killed"])]
        if inv_edges:
            nid, e = rnd.choice(inv_edges)
            samples.append({"from_node": nid, "fs": g[nid]["fs"], "cache": g[nid]["cache"], "edge": {k: e[k] for k in ("req", "force", "failing", "reports", "ran", "outcome", "killed", "at", "dst")}})
    vlib.write_evidence(ctx, "model_checking", {
        "states": max(1, tot_states), "transitions": max(1, tot_trans),
        "traces_validated_against_impl": sum(r["summ"]["edges"] for r in results),
        "samples": samples or [{"note": "no invocation edge"}],
        "evaluations": sum(r["summ"]["invocations"] for r in results),
        "distinct_nontrivial": sum(nontrivial_edges(g, pid) for g in graphs),
        "rule": "each program's REAL state space (bytes of the project directory) is explored to a fixpoint: from every real state every "
                "edit/revert/create/delete of every dependency file, removal of .spok, every request set x {plain,--force} x failing set"
                + (", a kill at every hook point and inside every command of every invocation, and tearing of cache.json to prefixes" if pid == "C10" else "")
                + "; every recorded edge is one real invocation of SpokFile.Run; TLC checks the graph x ghost-history product. "
                "distinct_nontrivial counts distinct invocation edges that " +
                {"C01": "start from a state with a populated cache and ran or skipped something", "C02": "start from a state with a populated cache and ran or skipped something",
                 "C09": "start from a state with a populated cache and ran or skipped something",
                 "C14": "carry --force and start from a state with a populated cache",
                 "C10": "were killed or start from a torn cache"}[pid],
        "per_program": [{"name": r["prog"], "real_states": r["summ"]["states"], "real_edges": r["summ"]["edges"],
                      "real_invocations": r["summ"]["invocations"], "tlc_product_distinct": r["tlc"].distinct,
                      "tlc_product_generated": r["tlc"].generated, "depth": r["tlc"].depth,
                      "random_walks": {k: v for k, v in r.get("walks", {}).items() if k != "violation"}} for r in results],
        "judge": {"module": "SpokRunTrace", "invariants": invs},
        "protocol_model": mc,
        "binary_kill_validation": killval,
        "binary_force_validation": forceval,
        "selftest_corrupted_graph_rejected": st,
        "exhaustive": True,
    }, assumptions=["ideal digest (injective in the set of (path, content) pairs): discharged for the real digest by C04",
                    "task commands are replaced by a recording runner (no side effects on dependency files during a run)",
                    "a kill is modelled by unwinding at a hook point / inside a command: the run loop has no deferred writes" if pid == "C10" else
                    "crash-free histories (C10 covers kills)",
                    "map-iteration nondeterminism inside one invocation is sampled by repetition (%d per state/action)" % progs[0]["reps"]])


def selftest(ctx, results, progs, invs):
    """Corrupt one recorded field of a real graph: TLC must reject it."""
    for res, prog in zip(results, progs):
        if res["violation"] or not res["dir"]:
            continue
        g = vlib.read_ndjson(os.path.join(res["dir"], "graph.ndjson"))
        target = None
        for n in g:
            for e in n["out"]:
                if e["act"] == "invoke" and not e["force"] and not e["killed"] and any((not r["skipped"]) for r in e["reports"]):
                    target = (n, e)
                    break
            if target:
                break
        if not target:
            continue
        n, e = target
        for r in e["reports"]:
            if not r["skipped"]:
                r["skipped"] = True     # claim a skip of a task that really ran
                break
        d = ctx.sub("selftest")
        json.dump(prog, open(os.path.join(d, "program.json"), "w"))
        vlib.write_ndjson(os.path.join(d, "graph.ndjson"), g)
        r = vlib.tlc(ctx, "SpokRunTrace", judge_cfg(["Inv_SkipRan"] + invs), files=[("program.json", os.path.join(d, "program.json")),
                                                                                    ("graph.ndjson", os.path.join(d, "graph.ndjson"))],
                     workers=2, timeout=600)
        if not r.violated:
            raise Machinery("binding self-test failed: corrupted graph accepted")
        return True
    return None


def model_check(ctx, progs):
    if not os.path.exists(os.path.join(vlib.SPEC, "SpokRun.tla")):
        return {"status": "protocol model not built yet"}
    import fam_run_model
    return fam_run_model.check(ctx, progs)


def replay(ctx, path):
    rp = json.load(open(path))
    if rp.get("family") in ("run-binary", "run-binary-force"):
        # process-level stages are short: re-run the stage; it reports through vlib.report if the violation is still there
        n0 = len(ctx.violations)
        (binary_kill_validation if rp["family"] == "run-binary" else binary_force_validation)(ctx)
        if len(ctx.violations) == n0:
            log("history no longer violates %s at the process level" % ctx.pid)
        return
    driver = vlib.build_driver(ctx)
    invs = INVS[ctx.pid]
    r2, g2 = replay_history(ctx, driver, rp["program"], rp["actions"], invs)
    edges2 = [n["out"][0] for n in g2 if n["out"]]
    log("replayed: " + human(edges2))
    if r2.violated:
        print("VIOLATION property=%s replay=%s" % (ctx.pid, path), flush=True)
        ctx.violations.append({"replay": path})
    else:
        log("history no longer violates %s" % ",".join(invs))


# ------------------------------------------------------------------ C10 at the process level: a real kill -9 of the built binary
def binary_kill_validation(ctx):
    """Histories in which the spok PROCESS is killed with SIGKILL from inside a task command (the command runs `kill -9 $$`), executed
    with the built binary as user nobody; the recorded behaviour is judged by the same SpokRunTrace invariants.  This keeps the
    in-process kill model (unwinding at a hook point / inside a command) honest."""
    import fam_cli
    prog = mkprog("K1", [T("A", lit=["a.txt"]), T("B", lit=["b.txt"], deps=["A"])], ["a.txt", "b.txt"])
    LOG = "@LOG@"

    def spokfile():
        s = ""
        for t, args in (("A", '"a.txt"'), ("B", '"b.txt", A')):
            s += 'task %s(%s) {\n    echo %s.1 >> %s\n    if [ "$(cat ksw)" = "%s" ]; then kill -9 $$; fi; echo %s.2 >> %s\n}\n\n' % (t, args, t, LOG, t, t, LOG)
        return s

    def content(c):
        return "content-%d\n" % c
    # a history = list of ("edit", file, c) | ("run", req, force, killtarget or None) | ("rmcache",)
    hists = []
    for tgt in ("A", "B"):
        for req in (["B"], ["A", "B"], ["A"] if tgt == "A" else ["B"]):
            hists.append([("run", ["A", "B"], False, None), ("edit", "a.txt", 1), ("run", req, False, tgt), ("edit", "a.txt", 0), ("run", ["A", "B"], False, None)])
            hists.append([("run", ["A", "B"], False, None), ("edit", "a.txt", 1), ("edit", "b.txt", 1), ("run", req, False, tgt), ("edit", "a.txt", 0), ("run", ["A", "B"], False, None),
                          ("edit", "b.txt", 0), ("run", ["B"], False, None)])
            hists.append([("run", req, False, tgt), ("run", ["A", "B"], False, None), ("run", ["A", "B"], False, None)])
            hists.append([("run", ["A", "B"], False, None), ("edit", "b.txt", 1), ("run", req, True, tgt), ("edit", "b.txt", 0), ("run", ["A", "B"], False, None)])
    scen = []
    for k, h in enumerate(hists):
        files = [{"p": "proj/", "dir": True}, {"p": "proj/spokfile", "c": spokfile()}, {"p": "proj/a.txt", "c": content(0)}, {"p": "proj/b.txt", "c": content(0)},
                 {"p": "proj/ksw", "c": "none"}]
        steps, pending = [], []
        for a in h:
            if a[0] == "edit":
                pending.append({"p": "proj/" + a[1], "c": content(a[2])})
            elif a[0] == "run":
                w = pending + [{"p": "proj/ksw", "c": a[3] or "none"}]
                pending = []
                steps.append({"cwd": "proj", "argv": a[1] + (["--force"] if a[2] else []) + ["--json"], "env": {}, "write": w})
        scen.append({"id": k + 1, "files": files, "steps": steps})
    raw = fam_cli.drive(ctx, scen, "kill")
    # build one forest graph: node 0 = root with a reset edge per history
    nodes = [{"id": 0, "fs": {"a.txt": 0, "b.txt": 0}, "cache": "none", "out": []}]
    nkilled = 0
    for h, r in zip(hists, raw):
        fs = {"a.txt": 0, "b.txt": 0}
        base = len(nodes)
        nodes[0]["out"].append(blank_edge("reset", base))
        si = 0
        for a in h:
            n = {"id": len(nodes), "fs": dict(fs), "cache": "ok", "out": []}
            if a[0] == "edit":
                fs[a[1]] = a[2]
                e = blank_edge("edit", len(nodes) + 1)
                e.update(f=a[1], c=a[2])
            else:
                st = r["steps"][si]
                si += 1
                e = blank_edge("invoke", len(nodes) + 1)
                killed = st["exit"] == -1 and "killed" in (st.get("signal") or "")
                nkilled += 1 if killed else 0
                ran = []
                for t in ("A", "B"):
                    ms = [m for m in st["effects"] if m.startswith(t + ".")]
                    if ms:
                        ran.append((min(st["effects"].index(m) for m in ms), {"t": t, "n": len(ms), "ok": len(ms) == 2}))
                reports = []
                if not killed and st["exit"] == 0:
                    try:
                        reports = [{"t": d["task"], "skipped": d["skipped"], "nres": len(d.get("results") or [])} for d in json.loads(st["stdout"])]
                    except Exception:
                        reports = []
                outcome = "killed" if killed else ("normal" if st["exit"] == 0 else "error")
                e.update(req=a[1], force=a[2], failing=[], reports=reports, ran=[x[1] for x in sorted(ran, key=lambda x: x[0])], outcome=outcome,
                         errcls=("cache" if "cache" in (st["stderr"] or "").lower() else ("none" if outcome != "error" else "other")), killed=killed,
                         at="kill -9 $$ inside %s's second command" % a[3] if a[3] else "")
            n["out"].append(e)
            nodes.append(n)
        nodes.append({"id": len(nodes), "fs": dict(fs), "cache": "ok", "out": []})
    if nkilled < len(hists) // 2:      # (a kill step whose target task is skipped as up to date is never reached: fine)
        raise Machinery("binary kill validation: only %d of %d kill steps ended with SIGKILL" % (nkilled, len(hists)))
    d = ctx.sub("killval")
    json.dump(prog, open(os.path.join(d, "program.json"), "w"))
    vlib.write_ndjson(os.path.join(d, "graph.ndjson"), nodes)
    r = judge(ctx, d, ["Inv_C10", "Inv_SkipRan"], workers=2, timeout=600)
    if r.violated:
        edges = [e for e in actions_from_trace(nodes, r.trace) if e["act"] != "reset"]
        vlib.report(ctx, "%s:binary-kill:%s" % (r.violated, human(edges)[:200]), "%s violated at the process level (real kill -9 of the binary): %s" % (r.violated, human(edges)),
                    {"property": "C10", "family": "run-binary", "invariant": r.violated, "history": human(edges), "scenario": "binary kill validation"})
    log("binary kill validation: %d histories with a real SIGKILL of the spok process judged by SpokRunTrace: %s" % (len(hists), r.violated or "hold"))
    return {"histories": len(hists), "real_sigkills": nkilled, "tlc_states": r.distinct, "result": r.violated or "holds"}


# ------------------------------------------------------------------ C14 at the process level: --force through the command line
def binary_force_validation(ctx):
    """--force reaches the run loop through the command-line layer, which also chooses the tasks when none is named (the task called
    `default`).  A few histories with the built binary as user nobody -- named and unnamed requests, forced and not, warm cache -- are
    turned into the same graph format and judged by the same SpokRunTrace invariants (the ground truth of execution is the side-effect
    log written by the commands, the reports come from --json)."""
    import fam_cli
    prog = mkprog("D1", [T("A", lit=["a.txt"]), T("default", lit=["b.txt"], deps=["A"])], ["a.txt", "b.txt"])
    LOG = "@LOG@"
    text = ""
    for t, args in (("A", '"a.txt"'), ("default", '"b.txt", A')):
        text += 'task %s(%s) {\n    echo %s.1 >> %s\n    echo %s.2 >> %s\n}\n\n' % (t, args, t, LOG, t, LOG)

    def content(c):
        return "content-%d\n" % c
    # ("run", names on the command line, force): no names = spok picks the task called default
    R = lambda names, force=False: ("run", names, force)
    hists = [[R([]), R([], True), R([])],
             [R(["default"]), R([], True), R([], True)],
             [R([]), R(["default"], True), R([])],
             [R(["A"]), R([], True), R([])],
             [R([]), ("edit", "a.txt", 1), R([], True), ("edit", "a.txt", 0), R([])],
             [R([]), ("edit", "b.txt", 1), R([], True), ("edit", "b.txt", 0), R(["default"])],
             [R([], True), R([])],
             [R([]), R(["A"], True), R(["A"])]]
    scen = []
    for k, h in enumerate(hists):
        files = [{"p": "proj/", "dir": True}, {"p": "proj/spokfile", "c": text}, {"p": "proj/a.txt", "c": content(0)}, {"p": "proj/b.txt", "c": content(0)}]
        steps, pending = [], []
        for a in h:
            if a[0] == "edit":
                pending.append({"p": "proj/" + a[1], "c": content(a[2])})
            else:
                steps.append({"cwd": "proj", "argv": a[1] + (["--force"] if a[2] else []) + ["--json"], "env": {}, "write": pending})
                pending = []
        scen.append({"id": k + 1, "files": files, "steps": steps})
    raw = fam_cli.drive(ctx, scen, "force")
    nodes = [{"id": 0, "fs": {"a.txt": 0, "b.txt": 0}, "cache": "none", "out": []}]
    nforced = 0
    for h, r in zip(hists, raw):
        fs = {"a.txt": 0, "b.txt": 0}
        nodes[0]["out"].append(blank_edge("reset", len(nodes)))
        si = 0
        for a in h:
            n = {"id": len(nodes), "fs": dict(fs), "cache": "ok", "out": []}
            if a[0] == "edit":
                fs[a[1]] = a[2]
                e = blank_edge("edit", len(nodes) + 1)
                e.update(f=a[1], c=a[2])
            else:
                st = r["steps"][si]
                si += 1
                e = blank_edge("invoke", len(nodes) + 1)
                ran = []
                for t in ("A", "default"):
                    ms = [m for m in st["effects"] if m.startswith(t + ".")]
                    if ms:
                        ran.append((min(st["effects"].index(m) for m in ms), {"t": t, "n": len(ms), "ok": len(ms) == 2}))
                try:
                    reports = [{"t": d["task"], "skipped": d["skipped"], "nres": len(d.get("results") or [])} for d in json.loads(st["stdout"])] if st["exit"] == 0 else []
                except Exception:
                    raise Machinery("binary force validation: --json output of a successful run is not a JSON document: %r" % st["stdout"][:200])
                if st["exit"] < 0:
                    raise Machinery("binary force validation: spok was killed or timed out")
                nforced += 1 if a[2] else 0
                e.update(req=a[1] or ["default"], force=a[2], failing=[], reports=reports, ran=[x[1] for x in sorted(ran, key=lambda x: x[0])],
                         outcome="normal" if st["exit"] == 0 else "error", errcls="none" if st["exit"] == 0 else "other", killed=False,
                         at="spok %s" % " ".join(a[1] + (["--force"] if a[2] else [])))
            n["out"].append(e)
            nodes.append(n)
        nodes.append({"id": len(nodes), "fs": dict(fs), "cache": "ok", "out": []})
    d = ctx.sub("forceval")
    json.dump(prog, open(os.path.join(d, "program.json"), "w"))
    vlib.write_ndjson(os.path.join(d, "graph.ndjson"), nodes)
    r = judge(ctx, d, ["Inv_C14a", "Inv_C14b", "Inv_C01", "Inv_C02", "Inv_SkipRan"], workers=2, timeout=600)
    if r.violated:
        edges = [e for e in actions_from_trace(nodes, r.trace) if e["act"] != "reset"]
        hist = "; ".join((e["at"] + " => " + (", ".join("%s:%s" % (x["t"], "skipped" if x["skipped"] else "ran") for x in e["reports"]) or e["outcome"])) if e["act"] == "invoke"
                         else "%s:=c%d" % (e["f"], e["c"]) for e in edges)
        vlib.report(ctx, "%s:binary-force:%s" % (r.violated, hist[:200]), "%s violated at the process level (--force through the command line): %s" % (r.violated, hist),
                    {"property": "C14", "family": "run-binary-force", "invariant": r.violated, "history": hist, "scenario": "binary force validation"})
    log("binary force validation: %d histories (%d forced invocations, named and unnamed requests) judged by SpokRunTrace: %s" % (len(hists), nforced, r.violated or "hold"))
    return {"histories": len(hists), "forced_invocations": nforced, "tlc_states": r.distinct, "result": r.violated or "holds"}


def blank_edge(act, dst):
    return {"act": act, "f": "", "c": 0, "k": 0, "req": [], "force": False, "failing": [], "reports": [], "ran": [], "outcome": "", "errcls": "none", "err": "",
            "killed": False, "at": "", "crash": {"kind": "", "k": 0}, "pred": "", "dst": dst}
