"""C05: declarative glob semantics (Glob.tla) as oracle for the real expansion (SpokFile.expandGlobs via Run)."""
import itertools
import json
import os
import random
import subprocess
from concurrent.futures import ThreadPoolExecutor

import vlib
from vlib import Machinery, log

PATHS = ["a.go", "z.go", "sub/b.go", "sub/deep/e.go", ".m.go", ".hid/c.go", "sub/.d.go", "sub/x.txt", "0.go", "sub.go/k.txt"]
QUICK_PATHS = PATHS
THOROUGH_PATHS = PATHS + ["sub/deep/.h/q.go", ".x.go/y.go", "sub/deep/f.txt", "zz/b.go"]
PATS = ["*.go", "**/*.go", "sub/*", "*/*", "**", "**/*", "sub/**", "*", "s*/*.go", "*.{go,txt}", "**/deep/*", "sub/*.go",
        "*/*.go", "**/*.txt", "**/e.go", "sub/**/*.go", "*.txt", "sub/.*", ".*", "*/*/*.go", "**/b.go", ".hid/*", "**/.d.go", "{a,z}.*",
        # alternation in a directory segment (also before the first wildcard), with a hidden branch, and in the middle of a path
        "{sub,zz}/*.go", "{sub,.hid}/*.go", "{sub,zz}/**/*.go", "sub/{deep,zz}/*", "{.m,a}.go*",
        # `?` and character classes, also in a directory segment before the first `*`, and matching a leading dot
        # the same patterns written with `./`
        "./*.go", "./sub/*.go", "./**/*.go", "sub/./*.go", "./sub/**/*.go", "./{sub,zz}/*.go", "sub//*.go", "sub//deep/*.go", "**//*.go",
        "?.go*", "s?b/*.go", "[sz]*/*.go", "su[a-c]/*", "sub/[a-e].go*", "?m.go*", "**/?.go"]


def chars(s):
    return list(s)


def pat_struct(p):
    segs = []
    for seg in p.split("/"):
        if seg in (".", ""):     # `./x`, `x/./y` and `x//y` are other spellings of `x` and `x/y`
            continue
        if seg == "**":
            segs.append([{"k": "dstar"}])
            continue
        atoms, i = [], 0
        while i < len(seg):
            c = seg[i]
            if c == "*":
                atoms.append({"k": "star"})
                i += 1
                while i < len(seg) and seg[i] == "*":
                    i += 1
            elif c == "?":
                atoms.append({"k": "any"})
                i += 1
            elif c == "[":
                j = seg.index("]", i)
                body, cs, q = seg[i + 1:j], [], 0
                while q < len(body):
                    if q + 2 < len(body) and body[q + 1] == "-":
                        cs += [chr(x) for x in range(ord(body[q]), ord(body[q + 2]) + 1)]
                        q += 3
                    else:
                        cs.append(body[q])
                        q += 1
                atoms.append({"k": "class", "set": cs})
                i = j + 1
            elif c == "{":
                j = seg.index("}", i)
                atoms.append({"k": "alt", "alts": [chars(a) for a in seg[i + 1:j].split(",")]})
                i = j + 1
            else:
                atoms.append({"k": "lit", "c": c})
                i += 1
        segs.append(atoms)
    return segs


def path_struct(p):
    return [chars(x) for x in p.split("/")]


def pool_json(paths):
    return {"paths": [{"s": p, "p": path_struct(p)} for p in paths], "pats": [{"s": p, "p": pat_struct(p)} for p in PATS]}


def drive(ctx, driver, scen, k):
    d = ctx.sub("globio")
    inp, outp = os.path.join(d, "in%d.ndjson" % k), os.path.join(d, "out%d.ndjson" % k)
    vlib.write_ndjson(inp, scen)
    p = subprocess.run([driver, "glob", "--root", os.path.join(ctx.scratch, "gl%d" % k, "r"), "--in", inp, "--out", outp], capture_output=True, text=True)
    if p.returncode != 0:
        raise Machinery("glob driver failed: %s" % p.stderr[-2000:])
    recs = vlib.read_ndjson(outp)
    if len(recs) != len(scen):
        raise Machinery("glob driver: %d records for %d scenarios" % (len(recs), len(scen)))
    return recs


def to_recs(s, r):
    """one driver record (a tree, all patterns) -> one TLC record per pattern"""
    if r.get("outcome") == "driver-error":
        raise Machinery("glob driver error: %s" % r.get("err"))
    out = []
    for pat in s["pats"]:
        g1 = (r.get("got1") or {}).get(pat)
        g2 = (r.get("got2") or {}).get(pat)
        oc = r.get("outcome", "ok")
        if oc == "ok" and (g1 is None or g2 is None):
            oc = "missing"
        out.append({"id": s["id"], "tree": [path_struct(p) for p in s["tree"] + s.get("induced", [])], "pat": pat_struct(pat), "pats": pat,
                    "trees": s["tree"] + ["%s -> %s" % (l[0], l[1]) for l in s.get("links", [])],
                    "got1": [path_struct(p) if p != "." else [] for p in (g1 or [])], "got2": [path_struct(p) if p != "." else [] for p in (g2 or [])],
                    "g1s": g1, "outcome": oc, "err": r.get("err", ""), "files": s["tree"], "links": s.get("links", []), "induced": s.get("induced", [])})
    return out


def judge(ctx, recs, pool, k=0):
    wd = ctx.sub("gljudge-%d-%d" % (k, random.getrandbits(30)))
    vlib.write_ndjson(os.path.join(wd, "recs.ndjson"), [{x: r[x] for x in ("tree", "pat", "got1", "got2", "outcome")} for r in recs])
    json.dump(pool, open(os.path.join(wd, "globpool.json"), "w"))
    r = vlib.tlc(ctx, "GlobJudge", "INIT JInit\nNEXT JNext\n", workers=1, timeout=1800, workdir=wd, dump_trace=False, heap="4g")
    vp = os.path.join(wd, "verdict.json")
    if r.error or not os.path.exists(vp):
        raise Machinery("GlobJudge failed: %s" % (r.error or r.out[-1500:]))
    v = json.load(open(vp))
    for key in list(v):
        if isinstance(v[key], dict) and not v[key]:
            v[key] = []
    return v


def run(ctx):
    tier = ctx.tier
    driver = vlib.build_driver(ctx)
    paths = QUICK_PATHS if tier == "quick" else THOROUGH_PATHS
    pool = pool_json(paths)
    # (1) the semantics itself over every tree x pattern of a sub-pool
    mcpool = pool_json(paths[:6] if tier == "quick" else paths[:8])
    wd = ctx.sub("globmc")
    json.dump(mcpool, open(os.path.join(wd, "globpool.json"), "w"))
    m = vlib.tlc(ctx, "Glob", "SPECIFICATION Spec\nINVARIANTS Sound NoHidden FileLocal\nPROPERTY Frame\n", workers=8, timeout=900, workdir=wd, heap="6g")
    if m.error or m.violated:
        raise Machinery("Glob model check failed: %s %s" % (m.violated, (m.error or "")[:1500]))
    log("Glob MC: %d distinct states (trees x patterns), semantics frame properties hold" % m.distinct)
    # (2) real expansions of every tree of the pool x every pattern
    scen = []
    for n in range(len(paths) + 1):
        for sub in itertools.combinations(paths, n):
            scen.append({"id": len(scen) + 1, "tree": list(sub), "pats": PATS})
    # symbolic links to a directory of the tree: the files seen through the link are files under the spokfile's directory too
    # (their relative path exists and matches or not like any other); a hidden link hides them
    rnd = random.Random(ctx.seed)
    withsub = [sc for sc in scen if any(p.startswith("sub/") for p in sc["tree"])]
    for sc in rnd.sample(withsub, min(len(withsub), 150 if tier == "quick" else 1500)):
        for lnk in ("lnk", ".hl", "zz/in"):
            ind = [lnk + p[len("sub"):] for p in sc["tree"] if p.startswith("sub/")]
            if any(p == lnk or p.startswith(lnk + "/") for p in sc["tree"]):
                continue
            scen.append({"id": len(scen) + 1, "tree": sc["tree"], "pats": PATS, "links": [[lnk, "sub" if "/" not in lnk else "../sub"]], "induced": ind})
    nsh = min(vlib.NCPU, 12)
    shards = [scen[i::nsh] for i in range(nsh)]
    recs = []
    with ThreadPoolExecutor(max_workers=nsh) as ex:
        for k, out in enumerate(ex.map(lambda k: drive(ctx, driver, shards[k], k), range(nsh))):
            for s, r in zip(shards[k], out):
                recs += to_recs(s, r)
    log("C05: %d real (tree, pattern) expansions" % len(recs))
    chunk = 4000
    chunks = [recs[i:i + chunk] for i in range(0, len(recs), chunk)]
    bad, nne, nhm = [], 0, 0
    with ThreadPoolExecutor(max_workers=min(12, len(chunks))) as ex:
        for k, v in enumerate(ex.map(lambda kc: judge(ctx, kc[1], pool, kc[0]), list(enumerate(chunks)))):
            bad += [chunks[k][i - 1] for i in v["Conforms_C05"]]
            nne += v["nNonEmpty"]
            nhm += v["nHiddenMatch"]
    # binding self-test: drop a matched file / add an unmatched one
    badkeys = {(r["id"], r["pats"]) for r in bad}
    good = [r for r in recs if (r["id"], r["pats"]) not in badkeys and r["outcome"] == "ok" and len([p for p in r["got1"] if p in r["tree"]]) >= 1]
    st = None
    if good:
        c = json.loads(json.dumps(good[0]))
        c["got1"] = c["got1"][1:]
        v = judge(ctx, [good[0], c], pool, 99)
        st = v["Conforms_C05"] == [2]
        if not st:
            raise Machinery("binding self-test failed for Glob judge: %s" % v["Conforms_C05"])
    seen = set()
    for r in bad:
        shape = (r["pats"], r["outcome"], any(p.startswith(".") for p in r["trees"]))
        if shape in seen:
            continue
        seen.add(shape)
        s = {"id": 1, "tree": r["files"], "pats": [r["pats"]], "links": r["links"], "induced": r["induced"]}
        again = to_recs(s, drive(ctx, driver, [s], 900 + len(seen))[0])
        v = judge(ctx, again, pool, 98)
        if not v["Conforms_C05"]:
            ctx.unreproduced = getattr(ctx, "unreproduced", 0) + 1
            continue
        vlib.report(ctx, "Conforms_C05:%s:%s" % (r["pats"], "dotfile" if shape[2] else "plain"),
                    "pattern %r over tree %s expanded to %s (%s)" % (r["pats"], r["trees"], again[0]["g1s"], again[0]["outcome"] + " " + again[0]["err"][:100]),
                    {"property": "C05", "family": "glob", "scenario": s, "observed": {"got1": again[0]["g1s"], "outcome": again[0]["outcome"]}})
        if len(seen) >= 6:
            break
    rnd = random.Random(ctx.seed)
    vlib.write_evidence(ctx, "model_checking", {
        "states": m.distinct, "transitions": m.generated,
        "traces_validated_against_impl": len(recs),
        "samples": [{"tree": r["trees"], "pattern": r["pats"], "expanded": r["g1s"]} for r in rnd.sample(recs, 4)],
        "evaluations": 2 * len(recs),
        "distinct_nontrivial": nne,
        "rule": "every subset of the %d-path pool (top-level and nested files, dot files and dot directories at top level and nested, names sorting "
                "before/after each other, a directory named like a match) x %d patterns (`*`, `**`, `?`, character classes, alternation, also in directory segments), plus sampled trees with a visible, a hidden "
                "and a nested symbolic link to a directory of the tree; each expanded twice through SpokFile.Run on fresh SpokFiles; "
                "TLC compares with Glob!Expand. distinct_nontrivial = (tree, pattern) pairs whose expected expansion is non-empty (%d); %d pairs have "
                "a hidden entry that matches the pattern" % (len(paths), len(PATS), nne, nhm),
        "model": {"module": "Glob", "distinct_states": m.distinct, "invariants": ["Sound", "NoHidden", "FileLocal"], "action_property": "Frame"},
        "judge": {"module": "Glob", "relation": "Conforms_C05"},
        "selftest_corrupted_record_rejected": st,
        "exhaustive": True,
    }, assumptions=["pattern semantics of the library spok uses (doublestar 4.7.1) as transcribed in Glob.tla", "directories returned by an expansion are ignored (C04: they do not affect the digest)"])


def replay(ctx, path):
    rp = json.load(open(path))
    driver = vlib.build_driver(ctx)
    s = rp["scenario"]
    again = to_recs(s, drive(ctx, driver, [s], 0)[0])
    v = judge(ctx, again, pool_json(THOROUGH_PATHS))
    log("observed: %s" % again[0]["g1s"])
    if v["Conforms_C05"]:
        print("VIOLATION property=C05 replay=%s" % path, flush=True)
        ctx.violations.append({"replay": path})
