"""C06 C07 C08 C11 C15 C16: the syntax family.

Input spaces come from the specifications (SpokSyntax.tla: generative grammar with layout dimensions and the token stream it
denotes; LexSM/ParseSM: the lexer / parser transcribed as state machines, model-checked, their state graph exported as
inputs with predicted results) plus bounded-exhaustive strings over the lexer's character-class alphabet and the repository's
own spokfiles with all their prefixes.  The real lexer / parser / printer run on every input (watched child processes) and TLC
evaluates the relations of SyntaxJudge.tla on the records.
"""
import itertools
import json
import os
import random
import subprocess
from concurrent.futures import ThreadPoolExecutor

import vlib
from vlib import Machinery, log

REL = {"C16": "Tiles_C16", "C08": "Total_C08", "C06": "AstEq_C06", "C07": "SemEq_C07", "C11": "Idem_C11", "C15": "Kept_C15"}

# the 25 lexer-relevant character classes of the design (E1 E2 = the two bytes of a non-ASCII letter, bad = an invalid byte)
CLASSES = {"sp": b" ", "tab": b"\t", "nl": b"\n", "cr": b"\r", "t": b"t", "a": b"a", "s": b"s", "k": b"k", "x": b"x", "us": b"_",
           "hash": b"#", "q": b'"', "lp": b"(", "rp": b")", "lb": b"{", "rb": b"}", "com": b",", "col": b":", "eq": b"=", "min": b"-",
           "gt": b">", "dot": b".", "E1": b"\xc3", "E2": b"\xa9", "F1": b"\xd7", "F2": b"\x90", "bad": b"\xff"}
SUB12 = ["sp", "nl", "t", "x", "hash", "q", "lp", "rp", "lb", "rb", "col", "eq"]
# (27 classes now: a second two-byte letter F1 F2 whose lead byte read as Latin-1 is not a letter)


def class_strings(tier):
    full = list(CLASSES.values())
    sub = [CLASSES[c] for c in SUB12]
    out = [b""]
    if tier == "quick":
        for n in (1, 2, 3):
            out += [b"".join(t) for t in itertools.product(full, repeat=n)]
        out += [b"".join(t) for t in itertools.product(sub, repeat=4)]
    else:
        for n in (1, 2, 3, 4):
            out += [b"".join(t) for t in itertools.product(full, repeat=n)]
        out += [b"".join(t) for t in itertools.product(sub, repeat=5)]
    return out


def repo_texts():
    """the repository's own spokfiles and documentation examples, with every prefix (truncation)"""
    texts = []
    for root, _, files in os.walk(vlib.REPO):
        if "/.git" in root:
            continue
        for f in files:
            p = os.path.join(root, f)
            if f == "spokfile" or f.endswith(".spok"):
                texts.append(open(p, "rb").read())
            elif f.endswith(".md"):
                src = open(p, "rb").read().decode("utf8", "replace")
                parts = src.split("```")
                for k in range(1, len(parts), 2):
                    body = parts[k]
                    first, _, rest = body.partition("\n")
                    if first.strip() in ("", "python", "shell", "make", "spok", "text", "toml"):
                        if "task " in rest or ":=" in rest:
                            texts.append(rest.encode())
    out, seen = [], set()
    for t in texts:
        if t in seen or len(t) > 6000:
            continue
        seen.add(t)
        out.append(t)
    return out


def prefixes(texts, step=1, cap=4000):
    out = []
    for t in texts:
        n = len(t)
        st = max(step, n // cap + 1)
        out += [t[:k] for k in range(0, n, st)]
    return out


def drive(ctx, driver, inputs, mode="fmt", procs=None):
    """inputs: list of bytes -> list of records (same order)"""
    d = ctx.sub("synio")
    tag = random.getrandbits(40)
    inp, outp = os.path.join(d, "in-%d.ndjson" % tag), os.path.join(d, "out-%d.ndjson" % tag)
    with open(inp, "w") as f:
        for i, b in enumerate(inputs):
            f.write('{"i":%d,"hex":"%s"}\n' % (i, b.hex()))
    p = subprocess.run([driver, "syntax", "--in", inp, "--out", outp, "--mode", mode, "--procs", str(procs or vlib.NCPU)], capture_output=True, text=True)
    if p.returncode != 0:
        raise Machinery("syntax driver failed: %s" % p.stderr[-2000:])
    recs = vlib.read_ndjson(outp)
    os.remove(inp)
    os.remove(outp)
    if len(recs) != len(inputs):
        raise Machinery("syntax driver: %d records for %d inputs" % (len(recs), len(inputs)))
    return recs


def tla_rec(r, exp=None, pred=None, pp=None):
    o = {k: r[k] for k in ("in", "wsx", "toks", "lexend", "lexerr", "p1", "same", "fmt", "p2", "fmt2", "outcome")}
    o["hasexp"] = exp is not None
    o["exp"] = exp if exp is not None else []
    o["haspred"] = pred is not None
    o["pred"] = pred if pred is not None else []
    o["haspf"] = False
    o["predfmt"] = ""
    if isinstance(pred, dict):        # model item: {"toks": [...], "pp": {...} | None, "fmt": hex (SpokSyntax's printer)}
        o["pred"] = pred["toks"]
        pp = pred.get("pp")
        if pred.get("fmt") is not None:
            o["haspf"], o["predfmt"] = True, pred["fmt"]
    o["haspp"] = pp is not None
    o["pp"] = pp if pp is not None else {"k": "", "line": 0}
    o["hasdisk"] = False
    o["disk"] = {"exit": 0, "h": ""}
    o["disk2"] = {"exit": 0, "h": ""}      # after a second `spok --fmt`
    o["hasdtree"] = False                  # the tree the parser reads from the file `spok --fmt` left on disk
    o["dtree"] = []
    o["fmth"] = ""
    o["origh"] = ""
    return o


def judge_chunk(ctx, recs, k):
    wd = ctx.sub("sjudge-%d-%d" % (k, random.getrandbits(30)))
    vlib.write_ndjson(os.path.join(wd, "recs.ndjson"), recs)
    r = vlib.tlc(ctx, "SyntaxJudge", "", workers=1, timeout=2400, workdir=wd, dump_trace=False, heap="3g")
    vp = os.path.join(wd, "verdict.json")
    if r.error or not os.path.exists(vp):
        raise Machinery("SyntaxJudge failed: %s" % (r.error or r.out[-1500:]))
    v = json.load(open(vp))
    for key in list(v):
        if isinstance(v[key], dict) and not v[key]:
            v[key] = []
    os.remove(os.path.join(wd, "recs.ndjson"))
    return v


def judge(ctx, recs, chunk=25000, par=12):
    chunks = [recs[i:i + chunk] for i in range(0, len(recs), chunk)]
    tot = {}
    with ThreadPoolExecutor(max_workers=min(par, max(1, len(chunks)))) as ex:
        for k, v in enumerate(ex.map(lambda kc: judge_chunk(ctx, kc[1], kc[0]), list(enumerate(chunks)))):
            for key, val in v.items():
                if isinstance(val, list):
                    tot.setdefault(key, []).extend([k * chunk + i - 1 for i in val])     # 0-based global indices
                else:
                    tot[key] = tot.get(key, 0) + val
    return tot


# complete small programs of the kind users write, formatted and not: variables of every kind feeding one another's neighbourhood
# (a builtin argument that is an identifier is refused when the file is loaded -- `--fmt` must then leave the file alone),
# named outputs, templates, continuation-looking command lines
HANDMADE = [
    b'ROOT := "build/output"\nBIN := join(ROOT, "bin")\n\n# Build it\ntask build("**/*.go") -> BIN {\n    go build -o {{.BIN}} ./...\n}\n',
    b'ROOT:="build/output"\nGIT := exec("echo abc")\nOUT:=join( GIT ,ROOT, "x" )\ntask t( "*.go" )->OUT{ echo {{.OUT}} }\n',
    b'# Version\nVERSION := exec("echo 1.2.3")\nNAME := "spok"\n\n# Say it\ntask say() {\n    echo "{{.NAME}} \\\n  {{.VERSION}}"\n    echo done\n}\n',
    b'task a() {\n\techo one \\\n\techo two\n}\n\ntask b(a) { echo b }\n',
    b'A := "1"\nB := join(A)\nC := exec(A)\n',
    # what the application does to the tree between parsing and printing must not show in `--fmt`: a value that is itself a template,
    # statements and comments below the last task, a task between two variables
    b'X := "{{.Y}} z"\nY := "y"\n\n# T\ntask t() {\n    echo {{.X}}\n    echo {{.Y}} {{.X}}\n}\n',
    b'# first\ntask a() {\n    echo a\n}\n\n# between\nV := "v"\n\n# second\ntask b(a) {\n    echo {{.V}}\n}\n\n# trailing\nW := "w"\n# the end\n',
    b'DIST := join("dist", "pkg")\n# Pack\ntask pack("*.txt") -> (DIST, "out.tar") {\n    tar cf out.tar *.txt\n}\n\n# Default\ntask default(pack) {\n    echo ok\n}\n',
]


def gather_inputs(ctx, pid, tier):
    """-> list of (bytes, expected tree or None, predicted tokens or None, source tag)"""
    items = []
    import syn_sources
    if pid != "C06":
        items += syn_sources.lexsm_source(ctx, pid, tier)
        for b in class_strings(tier):
            items.append((b, None, None, "class"))
        rt = repo_texts()
        for b in rt:
            items.append((b, None, None, "repo"))
        # very long lines (beyond any 64 KiB line buffer) before and at a syntax error
        big = b"x" * 70000
        for b in (b"# " + big + b'\nNAME := "unterminated\n', b'A := "' + big + b'"\ntask t {\n', b"task t() {\n    echo " + big + b"\n}\ntask u( {\n",
                  b"# c\n" + b'B := "' + big + b"\n", b"task t() {\n    echo ok\n}\n# " + big + b"\ntask (\n", b"V := " + big + b"(\"a\") x\n"):
            items.append((b, None, None, "longline"))
        # a byte order mark (and other invisible prefixes) in front of otherwise ordinary files
        for pre in (b"\xef\xbb\xbf", b"\xef\xbb\xbf\n", b"\xfe\xff", b"\x00", b"\xc2\xa0"):
            for b in rt[:6] + HANDMADE[:3] + [b"", b"#", b"# c\n", b'A := "b"\n', b"task t() {}\n"]:
                items.append((pre + b, None, None, "bom"))
        # non-ASCII white space (NBSP, NEL, LINE SEPARATOR, IDEOGRAPHIC SPACE) where ASCII white space may stand
        for u in ("\u00a0", "\u0085", "\u2028", "\u3000"):
            for t in ('A :=%s"b"\n', 'task%st() {}\n', 'task t(%s"a.go") {\n    echo a\n}\n', '%s\n# c\n', 'task t() {\n%secho a\n}\n', 'A := "b"%s\n', "#%sc\n", 'task t() {%secho a%s}\n'):
                items.append((t.replace("%s", u).encode("utf8"), None, None, "bom"))
        for b in HANDMADE:
            items.append((b, None, None, "handmade"))
            items.append((b.replace(b"\n", b"\r\n"), None, None, "handmade"))
        for b in prefixes(rt, cap=600 if tier == "quick" else 4000):
            items.append((b, None, None, "repo-prefix"))
    items += syn_sources.generated(ctx, pid, tier)
    return items


def run(ctx):
    pid, tier = ctx.pid, ctx.tier
    rel = REL[pid]
    driver = vlib.build_driver(ctx)
    import syn_sources
    model_info = syn_sources.model_checks(ctx, pid, tier)
    items = gather_inputs(ctx, pid, tier)
    # de-duplicate by bytes (keep the first item that carries an expectation)
    seen, uniq = {}, []
    for it in items:
        k = it[0]
        if k in seen:
            if uniq[seen[k]][1] is None and uniq[seen[k]][2] is None and (it[1] is not None or it[2] is not None):
                uniq[seen[k]] = it
            continue
        seen[k] = len(uniq)
        uniq.append(it)
    items = uniq
    log("%s: %d distinct inputs (%s)" % (pid, len(items), ", ".join("%s=%d" % (s, sum(1 for i in items if i[3] == s)) for s in sorted({i[3] for i in items}))))
    raw = drive(ctx, driver, [i[0] for i in items])
    notrun = sum(1 for r in raw if r.get("outcome") == "not-run")
    if notrun:
        # the driver stops feeding inputs after a dozen crashes / hangs (each costs a watchdog): the rest is not judged
        ctx.notes.append("%d inputs not run after repeated crashes/hangs of the parser" % notrun)
        keep = [k for k, r in enumerate(raw) if r.get("outcome") != "not-run"]
        items = [items[k] for k in keep]
        raw = [raw[k] for k in keep]
    recs = [tla_rec(r, it[1], it[2]) for r, it in zip(raw, items)]
    if pid in DISKREL:
        fmt_on_disk(ctx, items, raw, recs)
    v = judge(ctx, recs)
    bad = v.get(rel, [])
    if pid in DISKREL:
        bad = bad + [i for i in v.get(DISKREL[pid], []) if i not in set(bad)]
    drift = len(v.get("Drift_Toks", []))
    pdrift = len(v.get("Drift_Parse", []))
    fdrift = len(v.get("Drift_Fmt", []))
    if fdrift:
        ctx.notes.append("model_drift: %d generated programs whose real formatter output differs from the canonical text SpokSyntax's printer denotes (first: %r)"
                         % (fdrift, items[v["Drift_Fmt"][0]][0][:100]))
    if pdrift:
        ctx.notes.append("model_drift: %d inputs whose real parse outcome differs from ParseSM's prediction (first: %r)" % (pdrift, items[v["Drift_Parse"][0]][0][:80]))
    if drift:
        ctx.notes.append("model_drift: %d inputs whose real token stream differs from the stream the specification denotes/predicts (first: %r)"
                         % (drift, items[v["Drift_Toks"][0]][0][:80]))
    # binding self-test
    allbad = set()
    for key, val in v.items():
        if isinstance(val, list) and not key.startswith("Drift"):
            allbad |= set(val)
    st = selftest(ctx, [r for i, r in enumerate(recs) if i not in allbad], rel)
    # confirm (re-run alone, re-judge) and report: shortest inputs first, a handful
    bad_sorted = sorted(bad, key=lambda i: (len(items[i][0]), items[i][0]))
    reported = 0
    shapes = set()
    for i in bad_sorted:
        b, exp, pred, src = items[i]
        shape = shape_of(pid, raw[i], b)
        if shape in shapes:
            continue
        shapes.add(shape)
        again = drive(ctx, driver, [b], procs=1)
        rec2 = tla_rec(again[0], exp, None)
        rel_i = rel
        if pid in DISKREL and i in set(v.get(DISKREL[pid], [])) and i not in set(v.get(rel, [])):
            rel_i = DISKREL[pid]
            shape = shape + "/on-disk"
            fmt_on_disk(ctx, [items[i]], again, [rec2])
        v2 = judge(ctx, [rec2])
        if not v2.get(rel_i):
            ctx.unreproduced = getattr(ctx, "unreproduced", 0) + 1
            continue
        vlib.report(ctx, "%s:%s" % (rel_i, shape), "%s fails on %d-byte input %r (%s): %s" % (rel_i, len(b), b[:120], src,
                    describe(pid, again[0]) if rel_i == rel else {"FmtOnDisk_C07": "after `spok --fmt` (exit %s) the file on disk is not the formatter's output" % rec2["disk"]["exit"],
                                                                  "FmtOnDisk_C11": "a second `spok --fmt` (exit %s) changes the file the first one (exit %s) wrote" % (rec2["disk2"]["exit"], rec2["disk"]["exit"]),
                                                                  "KeptOnDisk_C15": "the file `spok --fmt` left on disk does not have the comments / docstrings of the original"}[rel_i]),
                    {"property": pid, "family": "syntax", "relation": rel, "input_hex": b.hex(), "input": b.decode("utf8", "replace"),
                     "expected_tree": exp, "observed": slim(again[0])})
        reported += 1
        if reported >= 6:
            break
    rnd = random.Random(ctx.seed)
    nontrivial = {"C16": v.get("nMultiTok", 0), "C08": v.get("nErrors", 0), "C06": sum(1 for it in items if it[1] is not None),
                  "C07": v.get("nParsed", 0), "C11": v.get("nParsed", 0), "C15": v.get("nWithComments", 0)}[pid]
    samples = []
    for i in rnd.sample(range(len(items)), min(3, len(items))):
        samples.append({"source": items[i][3], "input": items[i][0][:200].decode("utf8", "replace"),
                        "tokens": [[t["ty"], t["pos"], t["len"], t["line"]] for t in raw[i]["toks"][:12]], "parsed": raw[i]["p1"]["ok"]})
    vlib.write_evidence(ctx, "model_checking", {
        "states": max(1, model_info.get("states", 0)), "transitions": max(1, model_info.get("transitions", 0)),
        "traces_validated_against_impl": len(recs),
        "samples": samples,
        "evaluations": len(recs),
        "distinct_nontrivial": nontrivial,
        "rule": "distinct inputs by source: " + ", ".join("%s=%d" % (s, sum(1 for i in items if i[3] == s)) for s in sorted({i[3] for i in items}))
                + ". class = every string over the 25-class lexer alphabet up to the tier's length bound; repo = the repository's spokfiles and "
                "documentation examples, repo-prefix = all their truncations; the other sources are exported from the TLA+ models (see model). "
                "distinct_nontrivial = " + {"C16": "inputs with >= 3 tokens", "C08": "inputs that end in a syntax error", "C06": "generated programs with a known structure",
                                           "C07": "inputs that parse", "C11": "inputs that parse", "C15": "parsed inputs containing a comment or docstring"}[pid]
                + " (counted by TLC)",
        "model": model_info,
        "judge": {"module": "SyntaxJudge", "relation": rel, "parsed": v.get("nParsed"), "errors": v.get("nErrors"), "token_stream_drift": drift, "parse_outcome_drift": pdrift, "formatter_output_drift": fdrift},
        "selftest_corrupted_record_rejected": st,
        "exhaustive": True,
    }, assumptions=["white space between tokens of the generated inputs is ASCII white space", "hex-encoded strings are compared byte for byte",
                    "a parse not returning within 8 s is a hang"])


DISKREL = {"C07": "FmtOnDisk_C07", "C11": "FmtOnDisk_C11", "C15": "KeptOnDisk_C15"}


def fmt_on_disk(ctx, items, raw, recs):
    """C07's last sentence: `spok --fmt` overwrites the user's file in place.  A sample of the inputs that parse is written to a
    sandbox project, formatted with the built binary (as nobody) TWICE, and the bytes left on disk after each are recorded next to the
    library result (C07: the first is the formatter's text; C11: the second changes nothing; C15: the file left on disk, parsed again,
    has the comments and docstrings of the original -- the application loads the spokfile between parsing and printing, and nothing it
    does there may show)."""
    import hashlib
    import fam_cli
    cand = []
    for i, (it, r) in enumerate(zip(items, raw)):
        if r["outcome"] != "ok" or not r["p1"]["ok"] or it[3] not in ("syntax-rand", "syntax-exh", "loose", "repo", "handmade"):
            continue
        try:
            it[0].decode("utf8")
        except UnicodeDecodeError:
            continue
        if b"@HOME@" in it[0] or b"@LOG@" in it[0]:
            continue
        cand.append(i)
    rnd = random.Random(ctx.seed + 3)
    special = [i for i in cand if items[i][3] == "handmade"] + [i for i in cand if b"%" in items[i][0] or b"\\" in items[i][0]]
    rnd.shuffle(cand)
    n = 300 if ctx.tier == "quick" else 3000
    pick = list(dict.fromkeys(special[: n // 2] + cand[:n]))[:n]
    scen = [{"id": k + 1, "files": [{"p": "proj/", "dir": True}, {"p": "proj/spokfile", "c": items[i][0].decode("utf8")}],
             "steps": [{"cwd": "proj", "argv": ["--fmt"], "env": {}}, {"cwd": "proj", "argv": ["--fmt"], "env": {}}]} for k, i in enumerate(pick)]
    out = fam_cli.drive(ctx, scen, "fmt")
    texts = {}
    for i, o in zip(pick, out):
        st, st2 = o["steps"][0], o["steps"][1]
        h = [e["h"] for e in st["after"] if e["p"] == ["proj", "spokfile"]]
        h2 = [e["h"] for e in st2["after"] if e["p"] == ["proj", "spokfile"]]
        recs[i]["hasdisk"] = True
        recs[i]["disk"] = {"exit": st["exit"], "h": h[0] if h else "missing"}
        recs[i]["disk2"] = {"exit": st2["exit"], "h": h2[0] if h2 else "missing"}
        tx = [e.get("text") for e in st["after"] if e["p"] == ["proj", "spokfile"]]
        if ctx.pid == "C15" and st["exit"] == 0 and tx and tx[0] and hashlib.sha256(tx[0].encode("utf8")).hexdigest() == recs[i]["disk"]["h"]:
            texts[i] = tx[0].encode("utf8")
        recs[i]["fmth"] = hashlib.sha256(bytes.fromhex(raw[i]["fmt"])).hexdigest()
        recs[i]["origh"] = hashlib.sha256(items[i][0]).hexdigest()
    if texts:
        idx = sorted(texts)
        again = drive(ctx, vlib.build_driver(ctx), [texts[i] for i in idx])
        for i, a in zip(idx, again):
            if a.get("outcome") == "ok" and a["p1"]["ok"]:
                recs[i]["hasdtree"], recs[i]["dtree"] = True, a["p1"]["tree"]
            elif a.get("outcome") == "ok":
                recs[i]["hasdtree"], recs[i]["dtree"] = True, []         # the file left on disk does not parse: nothing is kept
    log("%s: %d parsed inputs also formatted in place with `spok --fmt`, twice (binary, as nobody)%s" % (
        ctx.pid, len(pick), "; %d files read back from disk and parsed" % len(texts) if texts else ""))


def shape_of(pid, r, b):
    if r["outcome"] != "ok":
        return r["outcome"]
    if pid == "C08":
        e = r["p1"]["err"] if not r["p1"]["ok"] else r["lexerr"]
        return "nolines" if not e["lines"] else ("range" if any(not q for q in e["quotes"]) else "other")
    if pid in ("C16",):
        return "%s/%d" % (r["lexend"], len(r["toks"]))
    if pid in ("C07",):
        return "reparse-fails" if not r["p2"]["ok"] else ("semantics" + ("-pct" if b"%" in b else ""))
    if pid == "C06":
        return "crlf" if b"\r\n" in b else ("noparse" if not r["p1"]["ok"] else "tree")
    return "x%d" % (len(b) // 8)


def describe(pid, r):
    if r["outcome"] != "ok":
        return r["outcome"] + " " + r.get("detail", "")[:200]
    if pid == "C08":
        e = r["p1"]["err"]
        return "error message %r cites lines %s" % (bytes.fromhex(e["msg"]).decode("utf8", "replace")[:160], e["lines"])
    if pid == "C16":
        return "tokens %s" % [[t["ty"], t["pos"], t["len"], t["line"]] for t in r["toks"][:10]]
    if pid == "C07":
        return "formatted text %r: %s" % (bytes.fromhex(r["fmt"]).decode("utf8", "replace")[:160],
                                          "does not parse: " + bytes.fromhex(r["p2"]["err"]["msg"]).decode("utf8", "replace")[:120] if not r["p2"]["ok"] else "parses to a different program")
    if pid == "C11":
        return "format %r, format again %r" % (bytes.fromhex(r["fmt"]).decode("utf8", "replace")[:120], bytes.fromhex(r["fmt2"]).decode("utf8", "replace")[:120])
    if pid == "C15":
        return "formatted %r" % bytes.fromhex(r["fmt"]).decode("utf8", "replace")[:160]
    if pid == "C06":
        return "parsed tree %s" % json.dumps(r["p1"]["tree"])[:300] if r["p1"]["ok"] else "parse error " + bytes.fromhex(r["p1"]["err"]["msg"]).decode("utf8", "replace")[:160]
    return ""


def slim(r):
    return {"toks": [[t["ty"], t["pos"], t["len"], t["line"]] for t in r["toks"][:40]], "lexend": r["lexend"], "p1": r["p1"], "fmt": r["fmt"],
            "p2ok": r["p2"]["ok"], "fmt2": r["fmt2"], "outcome": r["outcome"]}


def selftest(ctx, recs, rel):
    good = None
    for r in recs:
        if r["outcome"] == "ok" and r["p1"]["ok"] and r["p2"]["ok"] and len(r["toks"]) >= 4 and len(r["p1"]["tree"]) >= 1:
            good = r
            break
    if good is None:
        return None
    c = json.loads(json.dumps(good))
    if rel == "Tiles_C16":
        c["toks"][1]["pos"] += 1
    elif rel == "Total_C08":
        c["same"] = False
    elif rel == "AstEq_C06":
        c["hasexp"], c["exp"] = True, []
        good = dict(good, hasexp=True, exp=good["p1"]["tree"])
    elif rel == "SemEq_C07":
        c["p2"]["tree"] = c["p2"]["tree"][:-1] if [n for n in c["p2"]["tree"] if n["k"] != "comment"] else c["p2"]["tree"]
        c["p2"]["ok"] = False
    elif rel == "Idem_C11":
        c["fmt2"] = c["fmt2"] + "20"
    elif rel == "Kept_C15":
        c["p2"]["tree"] = c["p2"]["tree"] + [{"k": "comment", "t": "78", "a": "2078", "b": "", "xs": [], "ys": [], "cs": []}]
    v = judge(ctx, [good, c])
    if v.get(rel) != [1]:
        raise Machinery("binding self-test failed for %s: %s" % (rel, v.get(rel)))
    return True


def replay(ctx, path):
    rp = json.load(open(path))
    driver = vlib.build_driver(ctx)
    b = bytes.fromhex(rp["input_hex"])
    again = drive(ctx, driver, [b], procs=1)
    v = judge(ctx, [tla_rec(again[0], rp.get("expected_tree"), None)])
    log("observed: %s" % describe(ctx.pid, again[0]))
    if v.get(REL[ctx.pid]):
        print("VIOLATION property=%s replay=%s" % (ctx.pid, path), flush=True)
        ctx.violations.append({"replay": path})
