"""C03: TaskGraph.tla (algorithm model, every configuration within bounds as initial state) + real runs of every
dependency graph x request list judged by TLC with TaskGraphJudge."""
import itertools
import json
import os
import random
import subprocess
from concurrent.futures import ThreadPoolExecutor

import vlib
from vlib import Machinery, log


def mc(ctx, names, variant, maxreq, liveness, timeout=1800):
    cfg = ("SPECIFICATION Spec\nCONSTANTS Names = {%s} Undef = \"u\" Variant = \"%s\" MaxReq = %d\n"
           "INVARIANTS OnceEach DepsFirstInv NothingTwice ErrorRunsNothing ErrorIffAnomaly\n%s"
           % (", ".join('"%s"' % n for n in names), variant, maxreq, "PROPERTY Terminates\n" if liveness else ""))
    return vlib.tlc(ctx, "TaskGraph", cfg, workers=min(12, vlib.NCPU), timeout=timeout, heap="10g")


def powerset(xs):
    return [list(c) for n in range(len(xs) + 1) for c in itertools.combinations(xs, n)]


def scenarios(tier, seed):
    rnd = random.Random(seed)
    scen = []

    def add(names, deps, defs, req, failing=(), files=(), second=False, reps=3, vars_=()):
        scen.append({"id": len(scen) + 1,
                     "tasks": [{"name": n, "deps": list(deps[n]), "file": n in files, "count": defs.get(n, 1)} for n in names],
                     "req": list(req), "failing": list(failing), "reps": reps, "second": second, "vars": list(vars_)})

    names = ["a", "b", "c"]
    allt = names + ["u"]
    reqs = [["a"], ["b"], ["c"], ["u"], ["a", "b"], ["b", "a"], ["a", "c"], ["b", "c"], ["a", "a"], ["a", "u"], ["a", "b", "c"], ["c", "b", "a"]]
    depsets = powerset(allt)
    # every dependency function over 3 names + the undefined name, every request list
    for da, db, dc in itertools.product(depsets, repeat=3):
        deps = {"a": da, "b": db, "c": dc}
        for rq in reqs:
            add(names, deps, {}, rq)
        # definition anomalies and failures on a subset of the request lists
        k = rnd.randrange(3)
        add(names, deps, {names[k]: 2}, reqs[rnd.randrange(len(reqs))], reps=1)
        add(names, {n: ([] if n == names[k] else deps[n]) for n in names}, {names[k]: 0}, reqs[rnd.randrange(len(reqs))], reps=1)
        add(names, deps, {}, rnd.choice(reqs), failing=rnd.choice([["a"], ["b"], ["c"], ["a", "b"], ["a", "b", "c"]]))
        if rnd.random() < 0.25:
            add(names, deps, {}, rnd.choice(reqs), files=("a", "c"), second=True)
        # global variables that carry the names of tasks (an identifier in a dependency list still means the task)
        if rnd.random() < 0.3:
            add(names, deps, {}, rnd.choice(reqs), vars_=rnd.sample(names, rnd.randint(1, 3)))
        # the same dependency listed twice in one task
        if rnd.random() < 0.3:
            add(names, {n: list(deps[n]) + list(deps[n])[:1] for n in names}, {}, rnd.choice(reqs))
    if tier != "quick":
        names4 = ["a", "b", "c", "d"]
        reqs4 = [["a"], ["d"], ["a", "b"], ["c", "d"], ["d", "a"], ["a", "b", "c", "d"], ["d", "c", "b", "a"], ["b"], ["b", "c"], ["a", "d", "a"]]
        dep4 = powerset(names4)
        for ds in itertools.product(dep4, repeat=4):
            deps = dict(zip(names4, ds))
            for rq in rnd.sample(reqs4, 8):
                add(names4, deps, {}, rq, reps=3)
            if rnd.random() < 0.2:
                add(names4, deps, {}, rnd.choice(reqs4), failing=rnd.sample(names4, rnd.randint(1, 3)))
            if rnd.random() < 0.1:
                add(names4, deps, {}, rnd.choice(reqs4), files=("a", "c"), second=True)
    # sampled larger graphs (5..8 tasks): mostly DAGs, some with back edges / self loops / undefined names
    nbig = 400 if tier == "quick" else 6000
    for _ in range(nbig):
        n = rnd.randint(5, 8)
        ns = ["t" + "pqrsvwxy"[i] for i in range(n)]      # identifiers are letters and '_' only
        rnd.shuffle(ns)
        deps = {}
        for i, x in enumerate(ns):
            cand = ns[:i]
            deps[x] = rnd.sample(cand, min(len(cand), rnd.choice([0, 1, 1, 2, 3])))
        r = rnd.random()
        if r < 0.2:
            x = rnd.choice(ns)
            deps[x] = deps[x] + [rnd.choice(ns)]           # possibly a back edge or self loop
        elif r < 0.3:
            deps[rnd.choice(ns)].append("u")
        if rnd.random() < 0.2:
            x = rnd.choice(ns)
            if deps[x]:
                deps[x] = deps[x] + [rnd.choice(deps[x])]  # a dependency listed twice
        defs = {}
        if rnd.random() < 0.05:
            defs[rnd.choice(ns)] = 2
        rq = rnd.sample(ns, rnd.randint(1, 3))
        fl = rnd.sample(ns, rnd.randint(1, 2)) if rnd.random() < 0.2 else []
        add(ns, deps, defs, rq, failing=fl, files=tuple(rnd.sample(ns, 2)), second=rnd.random() < 0.3, reps=5,
            vars_=rnd.sample(ns, 2) if rnd.random() < 0.15 else ())
    return scen


def drive(ctx, driver, scen, k):
    d = ctx.sub("graphio")
    inp = os.path.join(d, "in%d.ndjson" % k)
    outp = os.path.join(d, "out%d.ndjson" % k)
    vlib.write_ndjson(inp, scen)
    p = subprocess.run([driver, "graph", "--root", os.path.join(ctx.scratch, "g%d" % k, "r"), "--in", inp, "--out", outp],
                       capture_output=True, text=True)
    if p.returncode != 0:
        raise Machinery("graph driver failed: %s" % p.stderr[-2000:])
    recs = vlib.read_ndjson(outp)
    if len(recs) != len(scen):
        raise Machinery("graph driver: %d records for %d scenarios" % (len(recs), len(scen)))
    return recs


def tla_rec(s, r):
    if r.get("outcome") == "driver-error":
        raise Machinery("graph driver error: %s" % r.get("err"))
    return {"id": s["id"], "names": [t["name"] for t in s["tasks"]],
            "defs": {t["name"]: t["count"] for t in s["tasks"]},
            "deps": {t["name"]: t["deps"] for t in s["tasks"]},
            "req": s["req"], "failing": s["failing"], "outcome": r.get("outcome", "ok"),
            "errs": sorted({o.get("err", "")[:160] for o in r.get("outs", []) if o.get("err")})[:2],
            "outs": [{"kind": o["kind"], "ran": o["ran"], "reported": o["reported"], "skipped": o["skipped"], "run": o["run"]}
                     for o in r.get("outs", [])]}


def judge(ctx, recs, k=0, timeout=1800):
    wd = ctx.sub("gjudge-%d-%d" % (k, random.getrandbits(30)))
    vlib.write_ndjson(os.path.join(wd, "recs.ndjson"), recs)
    r = vlib.tlc(ctx, "TaskGraphJudge", "", workers=1, timeout=timeout, workdir=wd, dump_trace=False, heap="4g")
    vp = os.path.join(wd, "verdict.json")
    if r.error or not os.path.exists(vp):
        raise Machinery("TaskGraphJudge failed: %s" % (r.error or r.out[-1500:]))
    v = json.load(open(vp))
    for key in list(v):
        if isinstance(v[key], dict) and not v[key]:
            v[key] = []
    return v


def run(ctx):
    tier = ctx.tier
    driver = vlib.build_driver(ctx)
    m = mc(ctx, ["a", "b", "c"], "fixed", 2, True)
    if m.error or m.violated:
        raise Machinery("TaskGraph model check failed: %s %s" % (m.violated, (m.error or "")[:1500]))
    pin = mc(ctx, ["a", "b"], "pinned", 2, False, timeout=600)
    if not pin.violated:
        raise Machinery("vacuity probe: pinned TaskGraph variant not refuted")
    log("TaskGraph MC: %d distinct states (all configurations over 3 names + undefined); pinned variant refuted by %s" % (m.distinct, pin.violated))
    scen = scenarios(tier, ctx.seed)
    nsh = vlib.NCPU
    shards = [scen[i::nsh] for i in range(nsh)]
    recs = []
    with ThreadPoolExecutor(max_workers=nsh) as ex:
        for k, out in enumerate(ex.map(lambda k: drive(ctx, driver, shards[k], k), range(nsh))):
            recs += [tla_rec(s, r) for s, r in zip(shards[k], out)]
    log("C03: %d real records" % len(recs))
    # TLC relation evaluation, sharded
    chunk = 40000
    chunks = [recs[i:i + chunk] for i in range(0, len(recs), chunk)]
    bad, nerr, ndeep = [], 0, 0
    with ThreadPoolExecutor(max_workers=min(8, len(chunks))) as ex:
        for k, v in enumerate(ex.map(lambda kc: judge(ctx, kc[1], kc[0]), list(enumerate(chunks)))):
            bad += [chunks[k][i - 1] for i in v["Allowed_C03"]]
            nerr += v["nErr"]
            ndeep += v["nDeep"]
    # binding self-test
    badids = {r["id"] for r in bad}
    good = [r for r in recs if r["id"] not in badids and r["outs"] and r["outs"][0]["kind"] == "ok" and len(r["outs"][0]["ran"]) >= 2 and not r["failing"]
            and len(r["outs"]) == 1]
    st = None
    if good:
        c = json.loads(json.dumps(good[0]))
        c["outs"][0]["ran"] = list(reversed(c["outs"][0]["ran"]))
        c["outs"][0]["reported"] = list(reversed(c["outs"][0]["reported"]))
        c2 = json.loads(json.dumps(good[0]))
        c2["outs"][0]["ran"] = c2["outs"][0]["ran"][:-1]
        v = judge(ctx, [good[0], c, c2], 99)
        st = 2 in v["Allowed_C03"] or 3 in v["Allowed_C03"]
        if not (3 in v["Allowed_C03"]) or 1 in v["Allowed_C03"]:
            raise Machinery("binding self-test failed for TaskGraphJudge")
    # confirm and report (distinct shapes only)
    byid = {s["id"]: s for s in scen}
    seen = set()
    for r in bad:
        s = byid[r["id"]]
        shape = classify(r)
        if shape in seen:
            continue
        seen.add(shape)
        s2 = dict(s, reps=20)
        again = tla_rec(s2, drive(ctx, driver, [s2], 900 + len(seen))[0])
        v = judge(ctx, [again], 98)
        if not v["Allowed_C03"]:
            ctx.unreproduced = getattr(ctx, "unreproduced", 0) + 1
            continue
        vlib.report(ctx, "Allowed_C03:" + shape, "C03 fails (%s): tasks=%s req=%s failing=%s observed=%s" % (
            shape, {t["name"]: t["deps"] for t in s["tasks"]}, s["req"], s["failing"], again["outs"][:2]),
            {"property": "C03", "family": "graph", "scenario": s2, "observed": again})
        if len(seen) >= 8:
            break
    rnd = random.Random(ctx.seed)
    samples = [r for r in rnd.sample(recs, 3)]
    vlib.write_evidence(ctx, "model_checking", {
        "states": m.distinct, "transitions": m.generated,
        "traces_validated_against_impl": len(recs),
        "samples": samples,
        "evaluations": sum(sum(1 for _ in r["outs"]) for r in recs),
        "distinct_nontrivial": ndeep + nerr,
        "rule": "records = real SpokFile.Run executions (repeated for map-order variation) of EVERY dependency function over 3 task names "
                "plus an undefined name (self loops and cycles included) x 12 request lists, with duplicate / missing definitions, failing "
                "commands and warm-cache second runs on samples" + ("; every dependency function over 4 names x 4 request lists" if tier != "quick" else "")
                + "; sampled graphs of 5-8 tasks. distinct_nontrivial = records whose configuration is an error case (undefined / duplicate / "
                "cycle in the closure: %d) or whose closure has >= 3 tasks (%d), as computed by TLC" % (nerr, ndeep),
        "model": {"module": "TaskGraph", "names": 3, "distinct_states": m.distinct, "liveness": "Terminates", "pinned_variant_refuted_by": pin.violated},
        "judge": {"module": "TaskGraphJudge", "relation": "Allowed_C03", "error_configurations": nerr, "closures_ge_3": ndeep},
        "selftest_corrupted_record_rejected": st,
        "exhaustive": True,
    }, assumptions=["map-iteration order inside dag.Sort is sampled by repetition", "task commands replaced by a recording runner"])


def classify(r):
    o = r["outs"][0] if r["outs"] else {"kind": r["outcome"], "ran": [], "reported": []}
    for x in r["outs"]:
        if x["kind"] != "ok" or True:
            o = x
            break
    return "%s/%s/nran=%d/nreq=%d" % (r["outcome"], o["kind"], len(o["ran"]), len(r["req"]))


def replay(ctx, path):
    rp = json.load(open(path))
    driver = vlib.build_driver(ctx)
    s = rp["scenario"]
    again = tla_rec(s, drive(ctx, driver, [s], 0)[0])
    v = judge(ctx, [again])
    log("observed: %s" % again["outs"])
    if v["Allowed_C03"]:
        print("VIOLATION property=C03 replay=%s" % path, flush=True)
        ctx.violations.append({"replay": path})
