"""C09 C12 C13 C19 C20: the command-line family.  Scenarios are enumerated (C19: by TLC from the abstract machine of
SpokCLI.tla), built in a sandbox HOME, the built spok binary is run as user nobody with a scrubbed environment, and TLC
evaluates the Conforms_* relations of SpokCLI.tla on the recorded before/after snapshots, outputs and side-effect logs."""
import itertools
import json
import os
import random
import subprocess
from concurrent.futures import ThreadPoolExecutor

import vlib
from vlib import Machinery, log

LOG = "@LOG@"


# ------------------------------------------------------------------ plumbing
def drive(ctx, scen, tag="b"):
    driver = vlib.build_driver(ctx)
    spok = vlib.build_spok(ctx)
    os.chmod(ctx.scratch, 0o755)
    d = ctx.sub("binio")
    t = random.getrandbits(40)
    inp, outp = os.path.join(d, "in-%d.ndjson" % t), os.path.join(d, "out-%d.ndjson" % t)
    vlib.write_ndjson(inp, scen)
    root = os.path.join(ctx.scratch, "sbx-%s-%d" % (tag, t))
    p = subprocess.run([driver, "bin", "--root", root, "--spok", spok, "--in", inp, "--out", outp, "--procs", str(vlib.NCPU)], capture_output=True, text=True)
    if p.returncode != 0:
        raise Machinery("bin driver failed: %s" % p.stderr[-2000:])
    recs = vlib.read_ndjson(outp)
    if len(recs) != len(scen):
        raise Machinery("bin driver: %d records for %d scenarios" % (len(recs), len(scen)))
    for r in recs:
        if r.get("outcome") == "driver-error":
            raise Machinery("bin driver error: %s" % r.get("err"))
    subprocess.run(["chmod", "-R", "u+rwx", root], stderr=subprocess.DEVNULL)
    subprocess.run(["rm", "-rf", root])
    return recs


def ent(e, with_lines=False):
    o = {"p": e["p"], "k": e["k"], "mode": e["mode"], "h": e["h"], "lines": []}
    if with_lines and e["p"][-1] == ".gitignore":
        o["lines"] = e.get("text", "").split("\n")
    return o


def step_rec(st, lines=False, extra=None):
    o = {"exit": st["exit"], "before": [ent(e, lines) for e in st["before"]], "after": [ent(e, lines) for e in st["after"]],
         "effects": st["effects"], "stdout": st["stdout"]}
    if extra:
        o.update(extra)
    return o


def judge(ctx, recs, k=0):
    wd = ctx.sub("clijudge-%d-%d" % (k, random.getrandbits(30)))
    vlib.write_ndjson(os.path.join(wd, "recs.ndjson"), recs)
    r = vlib.tlc(ctx, "SpokCLIJudge", "INIT JInit\nNEXT JNext\nCONSTANTS MaxFlags = 1\n", workers=1, timeout=1800, workdir=wd, dump_trace=False, heap="4g")
    vp = os.path.join(wd, "verdict.json")
    if r.error or not os.path.exists(vp):
        raise Machinery("SpokCLIJudge failed: %s" % (r.error or r.out[-2500:]))
    v = json.load(open(vp))
    bad = v["bad"] if isinstance(v["bad"], list) else []
    return [i - 1 for i in bad]


def judge_all(ctx, recs, chunk=1500):
    chunks = [recs[i:i + chunk] for i in range(0, len(recs), chunk)]
    bad = []
    with ThreadPoolExecutor(max_workers=min(12, max(1, len(chunks)))) as ex:
        for k, b in enumerate(ex.map(lambda kc: judge(ctx, kc[1], kc[0]), list(enumerate(chunks)))):
            bad += [k * chunk + i for i in b]
    return bad


def mc_cli(ctx):
    """the abstract machine: frame facts + scenario export"""
    r = vlib.tlc(ctx, "SpokCLI", "SPECIFICATION CSpec\nCONSTANTS MaxFlags = %d\nINVARIANTS EmitScen\nPROPERTIES FmtOnlyWhenValid CacheOnlyByRuns ReadOnlyActions "
                 "InitNeverOverwrites\nCHECK_DEADLOCK FALSE\n" % (2 if ctx.tier == "quick" else 4), workers=4, timeout=900, dump_trace=False)
    if r.error or r.violated:
        raise Machinery("SpokCLI model check failed: %s %s" % (r.violated, (r.error or "")[:1500]))
    scen = set()
    for l in r.out.splitlines():
        if l.startswith('<<"CLI"'):
            j = l[l.index(',') + 1:].strip()
            if j.endswith(">>"):
                j = j[:-2].strip()
            scen.add(json.loads(j))
    return r, [json.loads(s) for s in sorted(scen)]


# ------------------------------------------------------------------ C19
SPOK_VALID_FMT = '# A variable\nNAME := "value"\n# Say hello\ntask hello("*.txt") {\n    echo hello {{.NAME}}\n}\n\n# The default\ntask default(hello) {\n    echo default\n}\n\n'
SPOK_VALID_UNFMT = '#A variable\nNAME:="value"\n\n\n#Say hello\ntask   hello( "*.txt" ){\n echo hello {{.NAME}}\n}\n# The default\ntask default(hello) { echo default }\n'
SPOK_SYNTAXBAD = 'NAME := "value\ntask hello( {\n'
SPOK_LOADBAD = 'NAME := nope("x")\ntask hello() {\n    echo hello\n}\n'
# spokfiles that parse but do not load, each for a different reason (none in canonical layout, so a --fmt that went ahead would show):
# unknown builtin; a failing exec; exec with two arguments; an unclosed template action and an unknown template function in a command;
# a task defined twice.  Only evaluation / task construction sees most of them, a static look at the tree does not.
LOADBAD_TEXTS = [SPOK_LOADBAD,
                 'NAME:=exec("exit 3")\ntask hello() {\n    echo hello\n}\n',
                 'NAME:=exec("echo a", "b")\ntask hello() {\n    echo hello\n}\n',
                 'NAME:="v"\ntask hello() {\n    echo {{.NAME\n}\n',
                 'NAME:="v"\ntask hello() {\n    echo {{.NAME | upper}}\n}\n',
                 'NAME:="v"\ntask hello() {\n    echo a\n}\ntask hello() {\n    echo b\n}\n']
KIND_TEXT = {"formatted": SPOK_VALID_FMT, "unformatted": SPOK_VALID_UNFMT, "syntaxbad": SPOK_SYNTAXBAD, "loadbad": SPOK_LOADBAD}
FLAG_ARGV = {"init": "--init", "fmt": "--fmt", "vars": "--vars", "clean": "--clean", "show": "--show", "quiet": "--quiet", "debug": "--debug", "json": "--json",
             "force": "--force", "task": "hello"}


GITIGNORES = ["node_modules\n*.log\n", "node_modules\n*.log", "node_modules\r\n*.log\r\n", "node_modules\n*.log\n\n\n", "", "\n", "a\n\r\n"]


def c19_scenarios(ctx, abstract, tier):
    scen, meta = [], []
    nabs = 0
    for a in abstract:
        # the bytes of an existing .gitignore matter to --init only ("appends"): every content variant there, one elsewhere
        variants = range(len(GITIGNORES)) if (a["gitignore"] and "init" in a["flags"]) else ([0] if tier == "quick" else [0, 1])
        # a second copy of the scenario with the spokfile reached through a symbolic link: wherever the action could write (--init, --fmt)
        # and on every fifth of the others
        nabs += 1
        lvariants = [(v, False) for v in variants]
        if a["kind"] != "missing" and ("init" in a["flags"] or "fmt" in a["flags"] or nabs % 5 == 0):
            lvariants += [(list(variants)[0], True)]
        for var, linked in lvariants:
            files = [{"p": "proj/", "dir": True}, {"p": "proj/sub/deep/", "dir": True}, {"p": "proj/a.txt", "c": "a\n"}, {"p": "proj/sub/b.txt", "c": "b\n"},
                     {"p": "proj/sub/deep/keep.md", "c": "keep\n"}, {"p": "other/x.txt", "c": "x\n"},
                     # neighbours a careless rewrite could use as scratch or backup names
                     {"p": "proj/spokfile.tmp", "c": "mine\n"}, {"p": "proj/spokfile.bak", "c": "mine\n"}, {"p": "proj/.spokfile.swp", "c": "mine\n"},
                     {"p": "proj/spokfile~", "c": "mine\n"}, {"p": "proj/spokfile.new", "c": "mine\n"}, {"p": "proj/.gitignore.tmp", "c": "mine\n"}]
            ktext = LOADBAD_TEXTS[len(scen) % len(LOADBAD_TEXTS)] if a["kind"] == "loadbad" else KIND_TEXT.get(a["kind"], "")
            if a["kind"] != "missing" and linked:
                # the spokfile is a symbolic link to a regular file kept elsewhere (a shared / generated spokfile): Find accepts it, so it
                # is "an existing spokfile" for --init, and --fmt may rewrite the file it leads to, nothing else
                files.append({"p": "conf/", "dir": True})
                files.append({"p": "conf/real.spok", "c": ktext})
                files.append({"p": "proj/spokfile", "link": "../conf/real.spok"})
            elif a["kind"] != "missing":
                files.append({"p": "proj/spokfile", "c": ktext})
            if a["gitignore"]:
                files.append({"p": "proj/.gitignore", "c": GITIGNORES[var]})
                files.append({"p": "proj/sub/deep/.gitignore", "c": "tmp/" + GITIGNORES[var]})
                files.append({"p": "other/.gitignore", "c": "o" + GITIGNORES[var]})
            if a["dotenv"]:
                files.append({"p": "proj/.env", "c": "FROM_DOTENV=1\n"})
            cwd = {"root": "proj", "nested": "proj/sub/deep", "elsewhere": "other"}[a["cwd"]]
            steps = []
            if a["cache"]:
                steps.append({"cwd": "proj", "argv": ["hello"], "env": {}})           # warm the cache first (only counts if it works)
            steps.append({"cwd": cwd, "argv": [FLAG_ARGV[f] for f in sorted(a["flags"])] + (["--spokfile", "@HOME@/proj/spokfile" if len(scen) % 2 else "../proj/./spokfile"] if a["cwd"] == "elsewhere" else []),
                          "env": {}})
            scen.append({"id": len(scen) + 1, "files": files, "steps": steps})
            meta.append(dict(a, linked=linked))
    return scen, meta


def rec_c19(s, a, r):
    srec, sc = [], []
    for k, st in enumerate(r["steps"]):
        last = k == len(r["steps"]) - 1
        act = a["action"] if last else "run"
        cwdp = {"root": ["proj"], "nested": ["proj", "sub", "deep"], "elsewhere": ["other"]}[a["cwd"]] if last else ["proj"]
        sc.append({"action": act, "kind": a["kind"], "proj": ["proj"], "cwd": cwdp,
                   "spokreal": ["conf", "real.spok"] if a.get("linked") else ["proj", "spokfile"]})
        srec.append(step_rec(st, lines=True))
    return {"rel": "C19", "id": s["id"], "scen": sc, "steps": srec}


def run_c19(ctx):
    m, abstract = mc_cli(ctx)
    scen, meta = c19_scenarios(ctx, abstract, ctx.tier)
    raw = drive(ctx, scen, "c19")
    recs = [rec_c19(s, a, r) for s, a, r in zip(scen, meta, raw)]
    bad = judge_all(ctx, recs)
    st = selftest(ctx, [r for i, r in enumerate(recs) if i not in set(bad)], "C19")
    report_bad(ctx, "C19", bad, recs, scen, meta, lambda i: "flags=%s (dispatches to %s) kind=%s%s cwd=%s gitignore=%s: changed paths %s (exit %s)" % (
        sorted(meta[i]["flags"]), meta[i]["action"], meta[i]["kind"], " (spokfile is a link to conf/real.spok)" if meta[i].get("linked") else "", meta[i]["cwd"], meta[i]["gitignore"], changed_paths(recs[i]["steps"][-1]), recs[i]["steps"][-1]["exit"]),
        lambda i: "%s/%s/%s%s" % (meta[i]["action"], meta[i]["kind"], meta[i]["cwd"], "/linked" if meta[i].get("linked") else ""))
    nontriv = sum(1 for r in recs if changed_paths(r["steps"][-1]))
    evidence(ctx, m, recs, nontriv, "abstract scenarios enumerated by TLC from SpokCLI's transition system (spokfile kind x action x cwd x .gitignore x .env x "
             "warm cache), built as real project trees and run through the binary as nobody; distinct_nontrivial = invocations that changed at least one path",
             st, [{"scenario": meta[i], "changed": changed_paths(recs[i]["steps"][-1]), "exit": recs[i]["steps"][-1]["exit"]} for i in sample_idx(ctx, recs, 3)])


def changed_paths(st):
    b = {"/".join(e["p"]): (e["k"], e["mode"], e["h"]) for e in st["before"]}
    a = {"/".join(e["p"]): (e["k"], e["mode"], e["h"]) for e in st["after"]}
    return sorted(p for p in set(a) | set(b) if a.get(p) != b.get(p))


# ------------------------------------------------------------------ C09
def c09_scenarios(tier, seed):
    rnd = random.Random(seed)
    shapes = {"single": {"alfa": []}, "chain": {"alfa": [], "bravo": ["alfa"], "carlo": ["bravo"]}, "fan": {"alfa": [], "bravo": [], "carlo": ["alfa", "bravo"]},
              "diamond": {"alfa": [], "bravo": ["alfa"], "carlo": ["alfa"], "delta": ["bravo", "carlo"]}}
    flags = [[], ["--quiet"], ["--json"], ["--force"], ["--quiet", "--force"], ["--json", "--force"]]
    scen, meta = [], []
    n = 440 if tier == "quick" else 16000
    boundary = [1, 2, 3, 64, 100, 125, 126, 127, 128, 129, 130, 137, 143, 200, 254, 255]
    singles = [(st, fl) for st in (boundary if tier == "quick" else list(range(1, 256))) for fl in range(4)]
    for it in range(n + len(singles)):
        shape = rnd.choice(list(shapes))
        # every 40th scenario: alfa's first command fails and the last task of a chain names a file that does not exist, so the run is
        # aborted by that task's hash error after alfa has failed (a known finding: the error reported names the missing file only)
        aborts = it < n and it % 40 == 0
        if aborts:
            shape = "chain"
        deps = shapes[shape]
        tasks = []
        anyfail = rnd.random() < 0.8 and not aborts
        single = singles[it - n] if it >= n else None      # exactly one failing command, every status of the pool, every flag
        target = rnd.choice(list(deps)) if single else None
        for name in deps:
            cmds = []
            ncmd = rnd.randint(1, 4)
            pos = rnd.randrange(ncmd)
            for k in range(ncmd):
                if single:
                    fails, status = (name == target and k == pos), single[0]
                else:
                    fails, status = (anyfail and rnd.random() < 0.25), rnd.choice(boundary)
                # how the command fails: an exit status, a failing utility, a command that does not exist, a child killed by a signal
                style = "exit" if single else rnd.choice(["exit", "exit", "false", "missing", "signal", "subshell"])
                cmds.append({"marker": "%s.%d" % (name, k + 1), "fails": fails, "status": status, "style": style})
            tasks.append({"name": name, "deps": deps[name], "cmds": cmds})
        if aborts:
            tasks[0]["cmds"][0].update(fails=True, style="exit", status=3)
        req = [rnd.choice(list(deps))] if rnd.random() < 0.5 else [list(deps)[-1]]
        text = ""
        files = [{"p": "proj/", "dir": True}]
        for t in tasks:
            files.append({"p": "proj/%s.txt" % t["name"], "c": t["name"]})
            args = ['"%s.txt"' % t["name"]] + (['"no-such-input.dat"'] if aborts and t["name"] == "carlo" else []) + t["deps"]
            text += "task %s(%s) {\n" % (t["name"], ", ".join(args))
            for c in t["cmds"]:
                tail = {"exit": "; exit %d" % c["status"], "false": "; false", "missing": "; no-such-command-%s" % name, "signal": "; sh -c 'kill -KILL $$'",
                        "subshell": "; (exit %d)" % c["status"]}[c["style"]] if c["fails"] else ""
                text += "    echo %s >> %s" % (c["marker"], LOG) + tail + "\n"
            text += "}\n\n"
        files.append({"p": "proj/spokfile", "c": text})
        fl = flags[single[1]] if single else rnd.choice(flags)
        if single:
            req = [list(deps)[-1]]                           # the whole shape runs, so the failing command is reached
        if aborts:
            req, fl = ["carlo"], []
        scen.append({"id": len(scen) + 1, "files": files, "steps": [{"cwd": "proj", "argv": req + fl, "env": {}}, {"cwd": "proj", "argv": req, "env": {}}]})
        meta.append({"tasks": [{"name": t["name"], "cmds": [{"marker": c["marker"], "fails": c["fails"]} for c in t["cmds"]]} for t in tasks], "req": req, "flags": fl,
                     "shape": "later-task-aborts" if aborts else shape})
    return scen, meta


def rec_c09(s, mt, r):
    steps = []
    for st in r["steps"]:
        # the error report: standard error, and any line of standard output that is an error line (the commands spok echoes while
        # running contain the task names too and are not a report of the failure)
        text = st["stderr"] + "\n".join(l for l in st["stdout"].split("\n") if l.startswith("Error"))
        steps.append(step_rec(st, extra={"mentioned": [t["name"] for t in mt["tasks"] if '"%s"' % t["name"] in text or "'%s'" % t["name"] in text or (" " + t["name"] + " ") in text]}))
    return {"rel": "C09", "id": s["id"], "scen": {"tasks": mt["tasks"]}, "steps": steps}


def run_c09(ctx):
    m, _ = mc_cli(ctx)
    scen, meta = c09_scenarios(ctx.tier, ctx.seed)
    raw = drive(ctx, scen, "c09")
    recs = [rec_c09(s, mt, r) for s, mt, r in zip(scen, meta, raw)]
    bad = judge_all(ctx, recs)
    st = selftest(ctx, [r for i, r in enumerate(recs) if i not in set(bad)], "C09")
    report_bad(ctx, "C09", bad, recs, scen, meta, lambda i: "req=%s flags=%s tasks=%s: exit=%s effects=%s second-run effects=%s" % (
        meta[i]["req"], meta[i]["flags"], [(t["name"], [c["fails"] for c in t["cmds"]]) for t in meta[i]["tasks"]], recs[i]["steps"][0]["exit"],
        recs[i]["steps"][0]["effects"], recs[i]["steps"][1]["effects"]), lambda i: "%s/%s" % (",".join(meta[i]["flags"]) or "plain", meta[i]["shape"]))
    # the history clause on the in-process explorer as well (Inv_C09b on the real state graph)
    import fam_run
    saved = ctx.pid
    extra = {}
    try:
        ctx.pid = "C09"
        extra = run_c09b(ctx)
    finally:
        ctx.pid = saved
    nontriv = sum(1 for i, r in enumerate(recs) if any(c["fails"] and c["marker"] in r["steps"][0]["effects"] for t in meta[i]["tasks"] for c in t["cmds"]))
    evidence(ctx, m, recs, nontriv, "random spokfiles of 1-4 tasks (single/chain/fan/diamond) x 1-4 commands, any subset exiting with 1/2/127/255 at any position, "
             "run under plain/--quiet/--json/--force through the binary as nobody, followed by a second plain run; the side-effect log is the ground truth of "
             "what executed; distinct_nontrivial = runs in which a failing command really executed", st,
             [{"req": meta[i]["req"], "flags": meta[i]["flags"], "exit": recs[i]["steps"][0]["exit"], "effects": recs[i]["steps"][0]["effects"]} for i in sample_idx(ctx, recs, 3)], extra=extra)


def run_c09b(ctx):
    """second clause on the real state graph (shared with the run family)"""
    import fam_run
    driver = vlib.build_driver(ctx)
    progs = fam_run.programs(ctx.tier, "C01")[:2 if ctx.tier == "quick" else 4]
    out = []
    for prog in progs:
        res = fam_run.check_program(ctx, driver, prog, fam_run.INVS["C09"])
        out.append({"program": prog["name"], "real_states": res["summ"]["states"], "real_edges": res["summ"]["edges"], "tlc_product_distinct": res["tlc"].distinct})
        if res["violation"]:
            inv, edges = res["violation"]
            acts = fam_run.to_replay_actions(edges)
            r2, g2 = fam_run.replay_history(ctx, driver, prog, acts, fam_run.INVS["C09"])
            if r2.violated:
                edges2 = [n["out"][0] for n in g2 if n["out"]]
                vlib.report(ctx, "Inv_C09b:%s" % prog["name"], "Inv_C09b violated by the real history: %s" % fam_run.human(edges2),
                            {"property": "C09", "family": "run", "invariant": "Inv_C09b", "program": prog, "actions": acts, "history": fam_run.human(edges2)})
            else:
                ctx.unreproduced = getattr(ctx, "unreproduced", 0) + 1
    return {"history_clause_Inv_C09b": out}


# ------------------------------------------------------------------ C13
VALS = ["v", "a b", "$HOME", "{x}", "}}", "a'b", "", "{{.AMBV}} z", "{{ x", "a\\b", "100%", "k=v"]
# HOME and LANG are set in the ambient environment of every run (the sandbox HOME, LANG=C)
NAMESV = ["FRESHV", "AMBV", "DOTV", "BOTHV", "HOME", "LANG"]
AMBIENT = {"AMBV": "ambient-value", "BOTHV": "ambient-both", "LAYBOTH": "lay-ambient", "LAYAMB": "lay-ambient-only"}
DOTENV = "DOTV=dotenv-value\nBOTHV=dotenv-both\nLAYBOTH=lay-dotenv\nLAYDOT=lay-dotenv-only\n"
# layering of variables the spokfile does NOT define (beyond C13; recorded as observed behaviour, never a verdict):
# .env is loaded without overriding what the ambient environment already sets
LAYER_CMD = 'echo "$LAYBOTH/$LAYDOT/$LAYAMB"'
LAYER_EXPECT = "lay-ambient/lay-dotenv-only/lay-ambient-only\n"


def c13_scenarios(tier, seed):
    rnd = random.Random(seed)
    scen, meta = [], []

    def add(vars_, cmds, tag="", after=None, outvar=None):
        text = ""
        for v in vars_:
            if v["kind"] == "str":
                text += '%s := "%s"\n' % (v["name"], v["val"])
            elif v["kind"] == "join":
                text += "%s := join(%s)\n" % (v["name"], ", ".join('"%s"' % a for a in v["args"]))
            else:
                text += '%s := exec("%s")\n' % (v["name"], v["cmd"])
        text += "\ntask t() {\n" if not outvar else "\ntask t() -> %s {\n" % outvar      # the variable also names an output of the task
        for c in cmds:
            line = ""
            for p in c["pieces"]:
                line += p["s"] if p["k"] == "lit" else ("{{.%s}}" % p["s"] if p["k"] == "t" else "$" + p["s"])
            text += "    " + line + "\n"
        text += "}\n"
        if after:                                  # the same name assigned again BELOW the task
            text += '\n%s := "%s"\n' % after
        files = [{"p": "proj/", "dir": True}, {"p": "proj/spokfile", "c": text}, {"p": "proj/.env", "c": DOTENV}]
        scen.append({"id": len(scen) + 1, "files": files, "steps": [{"cwd": "proj", "argv": ["t", "--json"], "env": AMBIENT}]})
        meta.append({"vars": vars_, "cmds": cmds, "tag": tag})

    def mkvar(name, kind, x):
        if kind == "str":
            return {"name": name, "kind": "str", "val": x, "args": [], "out": "", "fails": False, "cmd": ""}
        if kind == "join":
            return {"name": name, "kind": "join", "val": "", "args": x, "out": "", "fails": False, "cmd": ""}
        cmd, out, fails = x
        return {"name": name, "kind": "exec", "val": "", "args": [], "out": out, "fails": fails, "cmd": cmd}

    def cmds_for(vs):
        cs = []
        for v in vs:
            n = v["name"]
            cs.append({"pieces": [{"k": "lit", "s": "echo pre"}, {"k": "t", "s": n}, {"k": "lit", "s": "post "}, {"k": "t", "s": n}], "envname": ""})
            cs.append({"pieces": [{"k": "lit", "s": 'echo "'}, {"k": "e", "s": n}, {"k": "lit", "s": '"'}], "envname": n})
            # the environment of a PROGRAM the command starts (not the shell's own expansion of $NAME)
            cs.append({"pieces": [{"k": "lit", "s": "printenv " + n}], "envname": n})
            cs.append({"pieces": [{"k": "lit", "s": "sh -c 'printf \"%s\\n\" \"$" + n + "\"'"}], "envname": n})
        cs.append({"pieces": [{"k": "lit", "s": "echo plain | cat"}], "envname": ""})
        cs.append({"pieces": [{"k": "lit", "s": 'echo "'}, {"k": "e", "s": "LAYBOTH"}, {"k": "lit", "s": "/"}, {"k": "e", "s": "LAYDOT"}, {"k": "lit", "s": "/"},
                              {"k": "e", "s": "LAYAMB"}, {"k": "lit", "s": '"'}], "envname": ""})
        return cs

    # every name x every string value
    for n in NAMESV:
        for val in VALS:
            vs = [mkvar(n, "str", val)]
            add(vs, cmds_for(vs))
    # a variable that is also a named output of the task (`-> NAME`): resolving the output path must not touch the variable
    for n, val in (("FRESHV", "bin/app"), ("AMBV", "dist"), ("DOTV", "./out/x.bin"), ("FRESHV", "../rel")):
        vs = [mkvar(n, "str", val)]
        add(vs, cmds_for(vs), tag="named-output", outvar=n)
    vs = [mkvar("FRESHV", "str", "bin/app"), mkvar("AMBV", "str", "other")]
    add(vs, cmds_for(vs), tag="named-output", outvar="FRESHV")
    # a value that ends in a backslash (a backslash is an ordinary character of a string): kept away from the end of the command line,
    # where the shell would read it as a line continuation
    for n in ("FRESHV", "AMBV"):
        vs = [mkvar(n, "str", "C:\\out\\")]
        add(vs, [{"pieces": [{"k": "lit", "s": "echo 'x"}, {"k": "t", "s": n}, {"k": "lit", "s": "y'"}], "envname": ""},
                 {"pieces": [{"k": "lit", "s": "printenv " + n}], "envname": n},
                 {"pieces": [{"k": "lit", "s": 'echo "'}, {"k": "e", "s": n}, {"k": "lit", "s": '"'}], "envname": n}], tag="trailing-backslash")
    # names the shell interpreter itself maintains (a known finding: the interpreter's value wins)
    for n in ("PWD", "IFS", "OPTIND"):
        vs = [mkvar(n, "str", "v")]
        add(vs, cmds_for(vs), tag="reserved-" + n)
    # a variable assigned a second time below the task that uses it: the task is written against the first value
    vs = [mkvar("FRESHV", "str", "first")]
    add(vs, cmds_for(vs), tag="reassigned-below", after=("FRESHV", "second"))
    # join / exec on every name
    for n in NAMESV:
        for args in ([], ["bin"], ["out", "x.txt"], ["a", "b", "c"], ["a/", "b"], ["./a", "b"], ["a", "..", "b"], ["a//b", "."], ["..", "x"], ["a/./b/../c"], ["../.."]):
            vs = [mkvar(n, "join", args)]
            add(vs, cmds_for(vs))
        for ex in (("echo hi", "hi", False), ("printf '  a b \\n\\n'", "a b", False), ("echo one two | tr a-z A-Z", "ONE TWO", False), ("exit 3", "", True), ("false", "", True)):
            vs = [mkvar(n, "exec", ex)]
            add(vs, cmds_for(vs))
    # combinations of two / three variables
    combos = list(itertools.permutations(NAMESV, 2)) + list(itertools.permutations(NAMESV, 3))
    rnd.shuffle(combos)
    for names in combos[: (40 if tier == "quick" else len(combos))]:
        for _ in range(2 if tier == "quick" else 40):
            vs = []
            for n in names:
                k = rnd.choice(["str", "str", "join", "exec"])
                x = rnd.choice(VALS) if k == "str" else (rnd.choice([[], ["bin"], ["out", "x.txt"]]) if k == "join" else rnd.choice([("echo hi", "hi", False), ("printf ' q \\n'", "q", False)]))
                vs.append(mkvar(n, k, x))
            add(vs, cmds_for(vs))
    return scen, meta


def rec_c13(s, mt, r):
    st = r["steps"][0]
    cmds, ok = [], False
    try:
        doc = json.loads(st["stdout"])
        for c in (doc[0].get("results") or []):
            cmds.append({"cmd": c["cmd"], "stdout": c["stdout"]})
        ok = len(doc) == 1
    except Exception:
        pass
    cwd = os.path.join(r["home"], "proj")

    def cleaned(args):
        """(directory, segments): the absolute cleaned join of cwd and args, as a base directory and the segments below it"""
        full = os.path.normpath(os.path.join(cwd, *[a.lstrip("/") if i else a for i, a in enumerate(args)])) if args else cwd
        if full == cwd or full.startswith(cwd + "/"):
            rest = full[len(cwd):].strip("/")
            return cwd, ([x for x in rest.split("/") if x])
        return full, []
    vs = []
    for v in mt["vars"]:
        o = {k: v[k] for k in ("name", "kind", "val", "args", "out", "fails")}
        o["jdir"], o["cargs"] = cleaned(v["args"]) if v["kind"] == "join" else (cwd, [])
        vs.append(o)
    sc = {"cwd": cwd, "vars": vs,
          "cmds": [{"pieces": c["pieces"], "envname": c["envname"]} for c in mt["cmds"]]}
    return {"rel": "C13", "id": s["id"], "scen": sc, "steps": [step_rec(st)], "json_ok": ok, "cmds": cmds, "stderr": st["stderr"][-300:]}


def run_c13(ctx):
    m, _ = mc_cli(ctx)
    scen, meta = c13_scenarios(ctx.tier, ctx.seed)
    raw = drive(ctx, scen, "c13")
    recs = [rec_c13(s, mt, r) for s, mt, r in zip(scen, meta, raw)]
    bad = judge_all(ctx, recs)
    st = selftest(ctx, [r for i, r in enumerate(recs) if i not in set(bad)], "C13")
    report_bad(ctx, "C13", bad, recs, scen, meta, lambda i: "vars=%s: exit=%s observed cmds=%s %s" % (
        [(v["name"], v["kind"], v["val"] or v["args"] or v["cmd"]) for v in meta[i]["vars"]], recs[i]["steps"][0]["exit"], recs[i]["cmds"][:4], recs[i]["stderr"][-120:]),
        lambda i: meta[i].get("tag") or "%s/%s" % ("+".join(sorted({v["kind"] for v in meta[i]["vars"]})), "+".join(sorted({"amb" if v["name"] in ("AMBV", "BOTHV") else ("dot" if v["name"] == "DOTV" else "fresh") for v in meta[i]["vars"]}))))
    lay = [c["stdout"] for r in recs for c in r["cmds"] if c["cmd"] == LAYER_CMD]
    layering = {"command": LAYER_CMD, "runs": len(lay), "as_modelled": sum(1 for x in lay if x == LAYER_EXPECT),
                "note": "ambient wins over .env for variables the spokfile does not define (observed behaviour, not part of C13)"}
    if lay and layering["as_modelled"] != len(lay):
        ctx.notes.append("model_drift: .env / ambient layering of non-spokfile variables differs from the recorded rule: %r" % sorted(set(lay))[:3])
    nontriv = sum(1 for mt in meta if any(v["name"] != "FRESHV" for v in mt["vars"]))
    evidence(ctx, m, recs, nontriv, "variable tables (string / join / exec values; names also set in the ambient environment, in .env, in both) x commands mixing literal "
             "text, {{.NAME}} and $NAME, run through `spok t --json` as nobody; distinct_nontrivial = scenarios in which a variable name is also set in the ambient "
             "environment or .env", st, [{"vars": [(v["name"], v["kind"]) for v in meta[i]["vars"]], "observed": recs[i]["cmds"][:3]} for i in sample_idx(ctx, recs, 3)],
             extra={"env_layering": layering})


# ------------------------------------------------------------------ C12
def c12_scenarios(tier, seed):
    rnd = random.Random(seed)
    scen, meta = [], []
    tree = ["bin/tool", "bin/keep.txt", "build/a.o", "build/b.o", "build/readme.md", "dist/pkg/x.tar", "dist/pkg/sub/y.tar", "src/main.go", "src/a.o", "out.txt", "notes.md",
            ".hidden/z.o", "decoy/out.txt", "build.log", "out.txt.bak", "dist/pkg.sha", ".x_cache/f.bin", "my_cache/f.bin", "my_cache/sub/g.bin", "cache.db", "zcache"]
    kinds = ["glob_dirs", "litfile", "litdir", "named_rel", "named_join", "glob", "glob_none", "missing", "litdir_build", "litfile_buildlog", "glob_top", "litfile_bak", "litfile_sha",
             "lit_linkdir", "named_linkfile", "lit_dotslash", "lit_trailing", "lit_updown", "named_abs_inside", "litdir_dist", "lit_cachedir", "lit_abs_outside", "lit_abs_inside",
             "named_empty", "named_dot", "lit_parent", "named_abs_outside", "glob_spok", "lit_spokfile",
             "named_abs_proj_slash", "named_abs_proj_dots", "lit_abs_proj_slash"]
    n = 400 if tier == "quick" else 20000
    for it in range(n):
        present = [p for p in tree if rnd.random() < 0.75]
        nout = rnd.randint(0, 5)
        chosen = [rnd.choice(kinds[:23] if rnd.random() < 0.8 else kinds) for _ in range(nout)]
        cwd_nested = rnd.random() < 0.3
        elsewhere = (not cwd_nested) and rnd.random() < 0.2      # run from an unrelated directory with --spokfile
        has_clean = rnd.random() < 0.15
        vars_, outs, des, alt, degenerate = [], [], [], [], False
        cwdp = ["proj", "src"] if cwd_nested else (["other"] if elsewhere else ["proj"])
        for k, kind in enumerate(chosen):
            if kind == "litfile":
                outs.append('"out.txt"'); des.append(["proj", "out.txt"]); alt.append(["proj", "out.txt"])
            elif kind == "litdir":
                outs.append('"dist/pkg"'); des.append(["proj", "dist", "pkg"]); alt.append(["proj", "dist", "pkg"])
            elif kind == "lit_linkdir":          # the output is a symbolic link (to a directory that is not an output): the link goes, its target stays
                outs.append('"current"'); des.append(["proj", "current"]); alt.append(["proj", "current"])
            elif kind == "named_linkfile":
                vars_.append(("LATEST%s" % "ABCDE"[k], '"latest.txt"')); outs.append("LATEST%s" % "ABCDE"[k]); des.append(["proj", "latest.txt"]); alt.append(cwdp + ["latest.txt"])
            elif kind == "lit_dotslash":         # other spellings of a path inside the project
                outs.append('"./out.txt"'); des.append(["proj", "out.txt"]); alt.append(["proj", "out.txt"])
            elif kind == "lit_trailing":
                outs.append('"dist/pkg/"'); des.append(["proj", "dist", "pkg"]); alt.append(["proj", "dist", "pkg"])
            elif kind == "lit_updown":
                outs.append('"build/../out.txt.bak"'); des.append(["proj", "out.txt.bak"]); alt.append(["proj", "out.txt.bak"])
            elif kind == "named_abs_inside":
                vars_.append(("INSIDE%s" % "ABCDE"[k], '"@HOME@/proj/build.log"')); outs.append("INSIDE%s" % "ABCDE"[k])
                des.append(["proj", "build.log"]); alt.append(["proj", "build.log"])
            elif kind == "lit_abs_outside":      # a literal absolute path names that path, wherever the spokfile is
                outs.append('"@HOME@/other/gen.txt"'); des.append(["other", "gen.txt"]); alt.append(["other", "gen.txt"])
            elif kind == "lit_abs_inside":
                outs.append('"@HOME@/proj/notes.md"'); des.append(["proj", "notes.md"]); alt.append(["proj", "notes.md"])
            elif kind == "litdir_dist":          # an output that contains another output
                outs.append('"dist"'); des.append(["proj", "dist"]); alt.append(["proj", "dist"])
            elif kind == "lit_cachedir":         # the cache directory named as an output: it goes anyway
                outs.append('".spok"')
            elif kind == "missing":
                outs.append('"nothere/file.bin"'); des.append(["proj", "nothere", "file.bin"]); alt.append(["proj", "nothere", "file.bin"])
            elif kind == "named_rel":
                vars_.append(("BIN%s" % "ABCDE"[k], '"bin/tool"')); outs.append("BIN%s" % "ABCDE"[k]); des.append(["proj", "bin", "tool"]); alt.append(cwdp + ["bin", "tool"])
            elif kind == "named_join":
                vars_.append(("JOINED%s" % "ABCDE"[k], 'join("build", "readme.md")')); outs.append("JOINED%s" % "ABCDE"[k])
                des.append(cwdp + ["build", "readme.md"]); alt.append(cwdp + ["build", "readme.md"])      # join() is relative to the cwd (C13)
            elif kind == "named_empty":
                vars_.append(("EMPTY%s" % "ABCDE"[k], '""')); outs.append("EMPTY%s" % "ABCDE"[k]); degenerate = True
            elif kind == "named_dot":
                vars_.append(("DOT%s" % "ABCDE"[k], '"."')); outs.append("DOT%s" % "ABCDE"[k]); degenerate = True
            elif kind == "named_abs_proj_slash":     # the project directory itself, spelled absolutely but not canonically
                vars_.append(("PROJS%s" % "ABCDE"[k], '"@HOME@/proj/"')); outs.append("PROJS%s" % "ABCDE"[k]); degenerate = True
            elif kind == "named_abs_proj_dots":
                vars_.append(("PROJD%s" % "ABCDE"[k], '"@HOME@/proj/src/.."')); outs.append("PROJD%s" % "ABCDE"[k]); degenerate = True
            elif kind == "lit_abs_proj_slash":
                outs.append('"@HOME@//proj/"'); degenerate = True
            elif kind == "lit_parent":
                outs.append('".."'); degenerate = True
            elif kind == "named_abs_outside":
                vars_.append(("ABS%s" % "ABCDE"[k], '"@HOME@/other/gen.txt"')); outs.append("ABS%s" % "ABCDE"[k]); des.append(["other", "gen.txt"]); alt.append(["other", "gen.txt"])
            elif kind == "glob":
                outs.append('"build/*.o"')
                for p in present:
                    if p.startswith("build/") and p.endswith(".o"):
                        des.append(["proj"] + p.split("/")); alt.append(["proj"] + p.split("/"))
            elif kind == "glob_dirs":        # a pattern ending in a separator matches directories only: dist/pkg goes, the file dist/pkg.sha stays
                outs.append('"dist/*/"')
                if any(p.startswith("dist/pkg/") for p in present):
                    des.append(["proj", "dist", "pkg"]); alt.append(["proj", "dist", "pkg"])
            elif kind == "glob_none":
                outs.append('"**/*.nomatch"')
            elif kind == "glob_spok":
                outs.append('"spok*"'); degenerate = True           # a glob that matches the spokfile itself
            elif kind == "lit_spokfile":
                outs.append('"spokfile"'); degenerate = True
            elif kind == "litdir_build":
                outs.append('"build"'); des.append(["proj", "build"]); alt.append(["proj", "build"])
            elif kind == "litfile_buildlog":
                outs.append('"build.log"'); des.append(["proj", "build.log"]); alt.append(["proj", "build.log"])
            elif kind == "litfile_bak":
                outs.append('"out.txt.bak"'); des.append(["proj", "out.txt.bak"]); alt.append(["proj", "out.txt.bak"])
            elif kind == "litfile_sha":
                outs.append('"dist/pkg.sha"'); des.append(["proj", "dist", "pkg.sha"]); alt.append(["proj", "dist", "pkg.sha"])
            elif kind == "glob_top":
                outs.append('"*cache*"')            # matches a hidden directory too (left alone) and entries sorting after it
                for top in ("my_cache", "cache.db", "zcache"):
                    if any(p == top or p.startswith(top + "/") for p in present):
                        des.append(["proj", top]); alt.append(["proj", top])
        names = [v[0] for v in vars_]
        text = "".join("%s := %s\n" % v for v in vars_) + "\n"
        half = len(outs) // 2
        text += "task build() -> (%s) {\n    echo build\n}\n\n" % ", ".join(outs[:half]) if half else "task build() {\n    echo build\n}\n\n"
        rest = outs[half:]
        if len(rest) == 1:
            text += "task pack(build) -> %s {\n    echo pack\n}\n\n" % rest[0]
        elif rest:
            text += "task pack(build) -> (%s) {\n    echo pack\n}\n\n" % ", ".join(rest)
        else:
            text += "task pack(build) {\n    echo pack\n}\n\n"
        if has_clean:
            text += "task clean() {\n    echo cleaned >> %s\n}\n\n" % LOG
        files = [{"p": "proj/", "dir": True}, {"p": "proj/src/", "dir": True}, {"p": "other/", "dir": True}, {"p": "other/gen.txt", "c": "gen"}, {"p": "other/keep.txt", "c": "keep"},
                 {"p": "proj/spokfile", "c": text},
                 {"p": "proj/releases/v1/app.bin", "c": "v1"}, {"p": "proj/releases/v1.txt", "c": "v1"},
                 {"p": "proj/current", "link": "releases/v1"}, {"p": "proj/latest.txt", "link": "releases/v1.txt"}]
        for p in present:
            files.append({"p": "proj/" + p, "c": p})
        steps = []
        warm = rnd.random() < 0.6
        if warm:
            steps.append({"cwd": "proj", "argv": ["build"], "env": {}})
        steps.append({"cwd": "/".join(cwdp), "argv": ["--clean"] + (["--spokfile", "@HOME@/proj/spokfile" if it % 2 else "../proj/spokfile"] if elsewhere else []), "env": {}})
        scen.append({"id": len(scen) + 1, "files": files, "steps": steps})
        meta.append({"proj": ["proj"], "cwd": cwdp, "hasClean": has_clean, "designated": des, "designatedAlt": alt, "degenerate": degenerate, "cleanMarker": "cleaned",
                     "kinds": chosen, "warm": warm})
    return scen, meta


def rec_c12(s, mt, r):
    st = r["steps"][-1]
    return {"rel": "C12", "id": s["id"], "scen": {k: mt[k] for k in ("proj", "cwd", "hasClean", "designated", "designatedAlt", "degenerate", "cleanMarker")},
            "steps": [step_rec(st)], "stderr": st["stderr"][-300:]}


def run_c12(ctx):
    m, _ = mc_cli(ctx)
    scen, meta = c12_scenarios(ctx.tier, ctx.seed)
    raw = drive(ctx, scen, "c12")
    recs = [rec_c12(s, mt, r) for s, mt, r in zip(scen, meta, raw)]
    bad = judge_all(ctx, recs)
    st = selftest(ctx, [r for i, r in enumerate(recs) if i not in set(bad)], "C12")
    report_bad(ctx, "C12", bad, recs, scen, meta, lambda i: "outputs=%s cwd=%s clean-task=%s: exit=%s removed/changed=%s %s" % (
        meta[i]["kinds"], "/".join(meta[i]["cwd"]), meta[i]["hasClean"], recs[i]["steps"][0]["exit"], changed_paths(recs[i]["steps"][0])[:12], recs[i]["stderr"][-160:]),
        lambda i: "%s/%s/%s" % ("+".join(sorted(set(meta[i]["kinds"]))), "nested" if len(meta[i]["cwd"]) > 1 else "root", "cleantask" if meta[i]["hasClean"] else "builtin"))
    nontriv = sum(1 for mt in meta if mt["designated"] or mt["degenerate"])
    evidence(ctx, m, recs, nontriv, "random project trees (files inside and outside declared outputs, nested directories, pre-existing and missing outputs, decoys) x spokfiles "
             "declaring 0-5 outputs of the kinds literal file / literal directory / named relative / named join() / named '' / named '.' / '..' / glob matching n>=0 files / "
             "absolute path outside the project, with and without a task named clean, from the project root and a nested cwd, with and without a warm cache; `spok --clean` "
             "run as nobody in a sandbox HOME; distinct_nontrivial = scenarios with at least one designated path or a degenerate output", st,
             [{"outputs": meta[i]["kinds"], "cwd": meta[i]["cwd"], "clean_task": meta[i]["hasClean"], "changed": changed_paths(recs[i]["steps"][0])[:8]} for i in sample_idx(ctx, recs, 3)])


# ------------------------------------------------------------------ C20
def c20_scenarios(tier, seed):
    rnd = random.Random(seed)
    scen, meta = [], []
    n = 250 if tier == "quick" else 12000
    pool = ["alpha", "beta", "gamma", "delta", "default", "zeta"]
    for it in range(n):
        k = rnd.randint(1, 5)
        names = rnd.sample(pool, k)
        tasks = []
        for i, nm in enumerate(names):
            deps = [d for d in names[:i] if rnd.random() < 0.35]
            cmds = []
            for c in range(rnd.randint(0, 4)):
                mk = "%s.%d" % (nm, c + 1)
                shape = rnd.choice(["both", "both", "noeol", "erronly", "twolines", "silent"])
                if shape == "both":
                    text, out, err = "echo o-%s; echo e-%s 1>&2; echo %s >> %s" % (mk, mk, mk, LOG), "o-%s\n" % mk, "e-%s\n" % mk
                elif shape == "noeol":          # output that does not end in a newline
                    text, out, err = "printf o-%s; echo %s >> %s" % (mk, mk, LOG), "o-%s" % mk, ""
                elif shape == "erronly":
                    text, out, err = "echo e-%s 1>&2; echo %s >> %s" % (mk, mk, LOG), "", "e-%s\n" % mk
                elif shape == "twolines":
                    text, out, err = "echo a-%s; echo b-%s; echo %s >> %s" % (mk, mk, mk, LOG), "a-%s\nb-%s\n" % (mk, mk), ""
                else:
                    text, out, err = "echo %s >> %s" % (mk, LOG), "", ""
                cmds.append({"text": text, "out": out, "err": err, "marker": mk})
            doc = ("Does %s things" % nm) if rnd.random() < 0.6 else ""
            tasks.append({"name": nm, "doc": doc, "deps": deps, "cmds": cmds, "hasfile": rnd.random() < 0.5})
        nv = rnd.randint(0, 5)
        vars_ = []
        text = ""
        for i in range(nv):
            nm, vk = "VAR%s" % "ABCDE"[i], rnd.choice(["str", "str", "join", "exec"])
            if vk == "str":
                val = rnd.choice(["one", "two words", "x=y", "3"])
                text += '%s := "%s"\n' % (nm, val)
            elif vk == "join":
                val = "@PROJ@/gen/out"                         # completed with the sandbox path after the run
                text += '%s := join("gen", "out")\n' % nm
            else:
                val = "hi there"
                text += '%s := exec("echo hi there")\n' % nm
            vars_.append({"name": nm, "value": val})
        text += "\n"
        files = [{"p": "proj/", "dir": True}]
        for t in tasks:
            args = (['"%s.txt"' % t["name"]] if t["hasfile"] else []) + t["deps"]
            if t["hasfile"]:
                files.append({"p": "proj/%s.txt" % t["name"], "c": t["name"]})
            if t["doc"]:
                text += "# %s\n" % t["doc"]
            text += "task %s(%s) {\n%s}\n\n" % (t["name"], ", ".join(args), "".join("    %s\n" % c["text"] for c in t["cmds"]))
        files.append({"p": "proj/spokfile", "c": text})
        req = rnd.sample(names, rnd.randint(1, min(2, k)))
        clo, stack = [], list(req)
        while stack:
            x = stack.pop()
            if x not in clo:
                clo.append(x)
                stack += [d for t in tasks if t["name"] == x for d in t["deps"]]
        # the log path differs per sandbox: expected command text is completed after the run (placeholder kept here)
        steps = [{"cwd": "proj", "argv": req + ["--json"], "env": {}}, {"cwd": "proj", "argv": req + ["--json"], "env": {}}, {"cwd": "proj", "argv": req + ["--quiet"], "env": {}},
                 {"cwd": "proj", "argv": ["--show"], "env": {}}, {"cwd": "proj", "argv": ["--vars"], "env": {}}, {"cwd": "proj", "argv": [], "env": {}},
                 {"cwd": "proj", "argv": ["--json"], "env": {}}, {"cwd": "proj", "argv": req + ["--json", "--force"], "env": {}},
                 # the listings are what they are whatever else is on the command line
                 {"cwd": "proj", "argv": ["--show", "--json"], "env": {}}, {"cwd": "proj", "argv": ["--vars", "--json"], "env": {}},
                 {"cwd": "proj", "argv": ["--show", "--force"], "env": {}}]
        scen.append({"id": len(scen) + 1, "files": files, "steps": steps})
        dclo, stack = [], (["default"] if "default" in names else [])
        while stack:
            x = stack.pop()
            if x not in dclo:
                dclo.append(x)
                stack += [d for t in tasks if t["name"] == x for d in t["deps"]]
        meta.append({"tasks": tasks, "vars": vars_, "req": req, "closure": clo, "dclosure": dclo,
                     "modes": ["json", "json", "quiet", "show", "vars", "noargs", "json-noargs", "json", "show", "vars", "show"], "argvs": [st["argv"] for st in steps]})
    return scen, meta


def rec_c20(s, mt, r):
    logp = os.path.join(os.path.dirname(r["home"]), "effects.log")
    sc = {"tasks": [{"name": t["name"], "doc": t["doc"], "deps": t["deps"], "hasfile": t["hasfile"],
                     "cmds": [{"text": c["text"].replace(LOG, logp), "out": c["out"], "err": c["err"], "marker": c["marker"]} for c in t["cmds"]]} for t in mt["tasks"]],
          "vars": [{"name": x["name"], "value": x["value"].replace("@PROJ@", os.path.join(r["home"], "proj"))} for x in mt["vars"]],
          "req": mt["req"], "closure": mt["closure"]}
    steps, views = [], []
    for k, (mode, st) in enumerate(zip(mt["modes"], r["steps"])):
        v = {"mode": mode, "json_ok": False, "doc": [], "rows": [], "sorted": True, "listing": False, "closure": mt["closure"],
             "fresh": k == 0 or "--force" in mt.get("argvs", [[]] * 99)[k]}
        out = st["stdout"]
        if mode == "json-noargs":
            # spok --json without task names: the default task's run when one exists (otherwise unconstrained)
            v["mode"] = "json" if mt["dclosure"] else "free"
            v["closure"] = mt["dclosure"]
            mode = v["mode"]
        if mode == "json":
            try:
                doc = json.loads(out)
                v["json_ok"] = isinstance(doc, list)
                v["doc"] = [{"task": d["task"], "skipped": d["skipped"], "results": [{"cmd": c["cmd"], "stdout": c["stdout"], "stderr": c["stderr"], "status": c["status"]}
                                                                                   for c in (d.get("results") or [])]} for d in doc]
            except Exception:
                v["json_ok"] = False
        elif mode in ("show", "vars"):
            lines = [l for l in out.split("\n") if l.strip()]
            known = {t["name"] for t in mt["tasks"]} if mode == "show" else {x["name"] for x in mt["vars"]}
            rows = []
            for l in lines:
                parts = l.split()
                if not parts or parts[0] not in known:
                    continue
                if mode == "show":
                    t = [t for t in mt["tasks"] if t["name"] == parts[0]]
                    rows.append({"name": parts[0], "hasdoc": bool(t) and (t[0]["doc"] in l)})
                else:
                    rows.append({"name": parts[0], "value": l.strip()[len(parts[0]):].strip()})
            v["rows"] = rows
            v["sorted"] = [x["name"] for x in rows] == sorted(x["name"] for x in rows)
        elif mode == "noargs":
            v["listing"] = "Tasks defined in" in out
        steps.append(step_rec(st))
        views.append(v)
    return {"rel": "C20", "id": s["id"], "scen": sc, "steps": steps, "views": views}


def run_c20(ctx):
    m, _ = mc_cli(ctx)
    scen, meta = c20_scenarios(ctx.tier, ctx.seed)
    raw = drive(ctx, scen, "c20")
    recs = [rec_c20(s, mt, r) for s, mt, r in zip(scen, meta, raw)]
    bad = judge_all(ctx, recs, chunk=400)
    st = selftest(ctx, [r for i, r in enumerate(recs) if i not in set(bad)], "C20")

    def desc(i):
        r = recs[i]
        return "req=%s tasks=%s: exits=%s json docs=%s show rows=%s" % (meta[i]["req"], [t["name"] for t in meta[i]["tasks"]], [s["exit"] for s in r["steps"]],
                                                                      [[(d["task"], d["skipped"], len(d["results"])) for d in v["doc"]] for v in r["views"][:2]], r["views"][3]["rows"])
    report_bad(ctx, "C20", bad, recs, scen, meta, desc, lambda i: "n%d" % len(meta[i]["tasks"]))
    nontriv = sum(1 for r in recs if any(d["skipped"] for d in r["views"][1]["doc"]))
    evidence(ctx, m, recs, nontriv, "random spokfiles (1-5 tasks, 0-4 commands printing distinct markers to stdout and stderr and to a side-effect log, 0-5 variables, with/without "
             "docstrings, with/without a task named default) x {--json first run, --json repeated run, --quiet, --show, --vars, no arguments} through the binary as nobody; "
             "distinct_nontrivial = scenarios whose repeated run reports at least one skipped task", st,
             [{"req": meta[i]["req"], "second_json": recs[i]["views"][1]["doc"][:3]} for i in sample_idx(ctx, recs, 2)])


# ------------------------------------------------------------------ shared reporting
def sample_idx(ctx, recs, n):
    rnd = random.Random(ctx.seed)
    return rnd.sample(range(len(recs)), min(n, len(recs)))


def selftest(ctx, recs, rel):
    """corrupt one recorded field: TLC must reject the corrupted record"""
    if not recs:
        return None
    good = json.loads(json.dumps(recs[0]))
    c = json.loads(json.dumps(recs[0]))
    for r in recs:
        if r["steps"][-1]["exit"] == 0:
            good = json.loads(json.dumps(r))
            c = json.loads(json.dumps(r))
            break
    c["steps"][-1]["after"] = c["steps"][-1]["after"] + [{"p": ["stray.file"], "k": "file", "mode": 420, "h": "00", "lines": []}]
    if rel == "C09":
        c["steps"][0]["exit"] = 0 if c["steps"][0]["exit"] != 0 else 1
    if rel == "C13":
        if c["cmds"]:
            c["cmds"][0]["cmd"] += " tampered"
        else:
            c["steps"][0]["exit"] = 0
    if rel == "C20":
        c["steps"][2]["stdout"] = "noise"
    bad = judge(ctx, [good, c], 97)
    if bad != [1]:
        raise Machinery("binding self-test failed for %s: %s" % (rel, bad))
    return True


REC = {}


def report_bad(ctx, rel, bad, recs, scen, meta, describe, shape):
    seen = set()
    for i in bad:
        sh = shape(i)
        if sh in seen:
            continue
        seen.add(sh)
        # confirm: run that scenario again from scratch, rebuild the record from the new observations and re-judge
        again = drive(ctx, [scen[i]], "confirm")[0]
        rec2 = REC[rel](scen[i], meta[i], again)
        if judge(ctx, [rec2], 96) != [0]:
            ctx.unreproduced = getattr(ctx, "unreproduced", 0) + 1
            continue
        vlib.report(ctx, "Conforms_%s:%s" % (rel, sh), "Conforms_%s fails: %s" % (rel, describe(i)),
                    {"property": rel, "family": "cli", "scenario": scen[i], "meta": meta[i], "observed": slim_rec(rec2)})
        if len(ctx.violations) >= 6:            # known findings do not use up the quota
            break


def slim_rec(r):
    o = {k: v for k, v in r.items() if k not in ("steps",)}
    o["steps"] = [{"exit": s["exit"], "effects": s["effects"], "stdout": s["stdout"][:600], "changed": changed_paths(s)} for s in r["steps"]]
    return o


def evidence(ctx, m, recs, nontriv, rule, st, samples, extra=None):
    cov = {"states": max(1, m.distinct), "transitions": max(1, m.generated), "traces_validated_against_impl": len(recs), "samples": samples or [{"n": len(recs)}],
           "evaluations": sum(len(r["steps"]) for r in recs), "distinct_nontrivial": nontriv, "rule": rule,
           "model": {"module": "SpokCLI", "distinct_states": m.distinct, "action_properties": ["FmtOnlyWhenValid", "CacheOnlyByRuns", "ReadOnlyActions", "InitNeverOverwrites"]},
           "judge": {"module": "SpokCLI", "relation": "Conforms_" + ctx.pid}, "selftest_corrupted_record_rejected": st, "exhaustive": ctx.pid == "C19"}
    if extra:
        cov.update(extra)
    vlib.write_evidence(ctx, "model_checking", cov, assumptions=[
        "the binary is run as uid nobody in a sandbox HOME with a scrubbed environment; the side-effect log written by task commands is the ground truth of execution",
        "tree snapshots compare path, kind, permission bits and SHA-256 of the content"])


def run(ctx):
    {"C19": run_c19, "C09": run_c09, "C13": run_c13, "C12": run_c12, "C20": run_c20}[ctx.pid](ctx)


def replay(ctx, path):
    rp = json.load(open(path))
    again = drive(ctx, [rp["scenario"]], "replay")[0]
    rec2 = REC[ctx.pid](rp["scenario"], rp["meta"], again)
    log("re-executed: exits=%s effects=%s" % ([s["exit"] for s in again["steps"]], [s["effects"] for s in again["steps"]]))
    if judge(ctx, [rec2], 95) == [0]:
        print("VIOLATION property=%s replay=%s" % (ctx.pid, path), flush=True)
        ctx.violations.append({"replay": path})


REC.update({"C19": rec_c19, "C09": rec_c09, "C13": rec_c13, "C12": rec_c12, "C20": rec_c20})
