"""Input sources exported from the TLA+ models of the syntax family.

SpokSyntax.tla  : abstract spokfiles x layouts -> pieces + denoted token stream (TLC renders; python only maps lexeme ids to bytes)
LexSM / ParseSM : the lexer / parser as state machines; their reachable inputs with predicted token streams / outcomes
loose           : accepted-but-unusual layouts (token sequences of the grammar with arbitrary separators) for C07 C11 C15
"""
import json
import os
import random

import vlib
from vlib import Machinery, log

# ---------------------------------------------------------------- lexeme table (bytes live here, lengths go to TLC)
LEX = {
    "n_x": b"x", "n_VAR": b"VAR_A", "n_acc": "été".encode(), "n_my": b"mytask", "n_long": b"build_all", "n_T": b"T", "n_us": b"_priv",
    "n_tasks": b"tasks", "n_taskdir": b"task_dir", "n_heb": "task\u05d0".encode(), "n_cyr": "\u0441\u0431\u043e\u0440\u043a\u0430".encode(), "n_cjk": "\u4efb\u52a1".encode(),
    "n_heb2": "\u05e9\u05dc\u05d5\u05dd".encode(), "n_grk": "\u03b1\u03b2".encode(),
    "s_ago": b"a.go", "s_empty": b"", "s_glob": b"**/*.go", "s_uni": "hé".encode(), "s_hash": b"a#b", "s_sp": b"a b", "s_brace": b"a{b",
    "s_dir": b"./bin/main", "s_dot": b".", "s_tpl": b"{{.X}}", "s_bs": b"C:\\tools\\x", "s_tab": b"a\tb", "s_pct": b"80%", "s_ctl": b"a\x01b", "s_esc": b"C:\\temp\\new", "s_dbl": b"a\\\\b", "s_hex": b"\\x41",
    "c_plain": b" hello", "c_empty": b"", "c_ws": b"  ", "c_kw": b" task t() {", "c_nosp": b"nospace", "c_uni": " café".encode(), "c_hash": b" a # b",
    "c_assign": b" x := \"1\"",
    "m_go": b"go test ./...", "m_tpl": b"echo {{.VAR_A}}", "m_x": b"x", "m_pipe": b'echo "a b" | wc -l', "m_adj": b"cp{{.X}}y z", "m_flag": b"rm -rf ./bin",
    "m_env": b"GOOS=linux go build", "m_two": b"echo {{.A}} {{.B}}", "m_semi": b"cd dir; ls", "m_pct": b"date +%Y-%m-%d", "m_bs": b"grep '\\d+' x", "m_open": b"echo {{", "m_close": b"ab }} y", "m_adj2": b"echo {{.A}}{{.B}}", "m_adj3": b"run {{.A}}{{.B}}{{.C}} x",
    "m_cont": b"echo a \\", "m_cont2": b"cp x \\",          # a command line that ends in a backslash is a command like any other
    "f_join": b"join", "f_exec": b"exec",
}
NAMES = [k for k in LEX if k.startswith("n_")]
STRS = [k for k in LEX if k.startswith("s_")]
COMS = [k for k in LEX if k.startswith("c_")]
CMDS = [k for k in LEX if k.startswith("m_")]
WS = {"none": b"", "sp1": b" ", "sp2": b"  ", "sp4": b"    ", "tab": b"\t", "lf": b"\n", "crlf": b"\r\n"}
FIXED = {"HASH": b"#", "DECLARE": b":=", "LPAREN": b"(", "RPAREN": b")", "COMMA": b",", "TASK": b"task", "OUTPUT": b"->", "LBRACE": b"{", "RBRACE": b"}"}

VALS = {"eol": ["lf", "crlf"], "indent": ["none", "sp2", "tab"], "blank": [0, 1, 2], "declL": ["none", "sp1", "tab"], "declR": ["none", "sp1", "tab"],
        "taskSp": ["sp1", "sp2", "tab"], "nameLp": ["none", "sp1"], "lpIn": ["none", "sp1"], "commaL": ["none", "sp1"], "commaR": ["none", "sp1", "tab"],
        "trail": [False, True], "rpIn": ["none", "sp1"], "arrowL": ["none", "sp1"], "arrowR": ["none", "sp1"], "parenSingle": [False, True],
        "lbL": ["none", "sp1", "tab"], "body": ["multi", "one"], "cmdIndent": ["none", "sp4", "tab"], "cmdBlank": [0, 1], "rbIndent": ["none", "sp2"],
        "lead": ["none", "lf", "sp2lf"], "finalNL": [0, 1, 2], "listBreak": ["none", "lines"],
        "oneL": ["none", "sp1", "sp2", "tab"], "oneR": ["none", "sp1", "sp2", "tab"]}
DEFAULT = {"eol": "lf", "indent": "none", "blank": 0, "declL": "sp1", "declR": "sp1", "taskSp": "sp1", "nameLp": "none", "lpIn": "none", "commaL": "none",
           "commaR": "sp1", "trail": False, "rpIn": "none", "arrowL": "sp1", "arrowR": "sp1", "parenSingle": False, "lbL": "sp1", "body": "multi",
           "cmdIndent": "sp4", "cmdBlank": 0, "rbIndent": "none", "lead": "none", "finalNL": 1, "listBreak": "none", "oneL": "sp1", "oneR": "sp1"}


def S(i):
    return {"k": "str", "id": i}


def I(i):
    return {"k": "ident", "id": i}


def catalogue():
    """small structures rendered in every layout with up to two deviations from the default"""
    return [
        [],
        [{"k": "comment", "id": "c_plain"}],
        [{"k": "assign", "name": "n_VAR", "val": S("s_ago")}],
        [{"k": "assign", "name": "n_acc", "val": {"k": "call", "fn": "f_join", "args": [S("s_ago"), I("n_x"), S("s_empty")]}}],
        [{"k": "task", "doc": "-", "name": "n_x", "deps": [], "outs": [], "cmds": []}],
        [{"k": "task", "doc": "c_plain", "name": "n_my", "deps": [S("s_glob"), I("n_x")], "outs": [S("s_ago")], "cmds": ["m_go"]}],
        [{"k": "task", "doc": "-", "name": "n_acc", "deps": [I("n_VAR")], "outs": [I("n_VAR"), S("s_uni")], "cmds": ["m_tpl", "m_x"]}],
        [{"k": "comment", "id": "c_kw"}, {"k": "assign", "name": "n_x", "val": S("s_hash")}, {"k": "comment", "id": "c_ws"},
         {"k": "task", "doc": "c_empty", "name": "n_x", "deps": [S("s_ago")], "outs": [], "cmds": ["m_x"]}],
        [{"k": "assign", "name": "n_x", "val": {"k": "call", "fn": "f_exec", "args": [S("s_uni")]}},
         {"k": "task", "doc": "c_plain", "name": "n_VAR", "deps": [], "outs": [I("n_x")], "cmds": ["m_go", "m_tpl"]}],
        [{"k": "task", "doc": "c_uni", "name": "n_T", "deps": [S("s_sp")], "outs": [S("s_dir"), S("s_brace")], "cmds": ["m_pipe", "m_adj", "m_semi"]},
         {"k": "comment", "id": "c_hash"}, {"k": "comment", "id": "c_empty"}],
    ]


def random_structure(rnd):
    nodes = []
    for _ in range(rnd.randint(0, 6)):
        r = rnd.random()
        if r < 0.3:
            nodes.append({"k": "comment", "id": rnd.choice(COMS)})
        elif r < 0.6:
            if rnd.random() < 0.6:
                val = S(rnd.choice(STRS))
            else:
                val = {"k": "call", "fn": rnd.choice(["f_join", "f_exec"]),
                       "args": [S(rnd.choice(STRS)) if rnd.random() < 0.7 else I(rnd.choice(NAMES)) for _ in range(rnd.randint(0, 4))]}
            nodes.append({"k": "assign", "name": rnd.choice(NAMES), "val": val})
        else:
            def arg():
                return S(rnd.choice(STRS)) if rnd.random() < 0.6 else I(rnd.choice(NAMES))
            nodes.append({"k": "task", "doc": rnd.choice(COMS) if rnd.random() < 0.5 else "-", "name": rnd.choice(NAMES),
                          "deps": [arg() for _ in range(rnd.randint(0, 4))], "outs": [arg() for _ in range(rnd.choice([0, 0, 1, 1, 2, 3, 4]))],
                          "cmds": [rnd.choice(CMDS) for _ in range(rnd.randint(0, 5))]})
    # a standalone comment directly before an undocumented task would MEAN a docstring: give that task the docstring explicitly
    out = []
    for n in nodes:
        if n["k"] == "task" and n["doc"] == "-" and out and out[-1]["k"] == "comment":
            n = dict(n, doc=out[-1]["id"])
            out.pop()
        out.append(n)
    return out


def random_layout(rnd):
    return {d: rnd.choice(v) for d, v in VALS.items()}


def hexs(b):
    return b.hex()


def exp_arg(a):
    return {"k": a["k"], "t": "", "a": hexs(LEX[a["id"]]), "b": "", "xs": [], "ys": [], "cs": []}


def expected_tree(nodes):
    out = []
    for n in nodes:
        if n["k"] == "comment":
            t = LEX[n["id"]]
            out.append({"k": "comment", "t": hexs(t.strip()), "a": hexs(t), "b": "", "xs": [], "ys": [], "cs": []})
        elif n["k"] == "assign":
            v = n["val"]
            if v["k"] == "str":
                val = exp_arg(v)
            else:
                val = {"k": "call", "t": "", "a": hexs(LEX[v["fn"]]), "b": "", "xs": [exp_arg(a) for a in v["args"]], "ys": [], "cs": []}
            out.append({"k": "assign", "t": "", "a": hexs(LEX[n["name"]]), "b": "", "xs": [val], "ys": [], "cs": []})
        else:
            doc = b"" if n["doc"] == "-" else LEX[n["doc"]]
            out.append({"k": "task", "t": hexs(doc.strip()), "a": hexs(LEX[n["name"]]), "b": hexs(doc),
                        "xs": [exp_arg(a) for a in n["deps"]], "ys": [exp_arg(a) for a in n["outs"]], "cs": [hexs(LEX[c]) for c in n["cmds"]]})
    return out


LEXALL = dict(LEX)


def render(pieces):
    b = b""
    for p in pieces:
        k, i = p["k"], p["id"]
        if k == "ws":
            b += WS[i]
        elif k in FIXED:
            b += FIXED[k]
        elif k == "STRING":
            b += b'"' + LEXALL[i] + b'"'
        else:
            b += LEXALL[i]
    return b


_cache = {}


def spoksyntax(ctx, tier):
    """-> (items, tlc result)"""
    key = ("syn", tier, ctx.seed)
    if key in _cache:
        return _cache[key]
    rnd = random.Random(ctx.seed)
    structs = []
    cat = catalogue()
    nexh = len(cat)
    for k, nodes in enumerate(cat):
        structs.append({"exh": k < nexh, "lays": [DEFAULT], "nodes": nodes})
    for _ in range(6000 if tier == "quick" else 40000):
        nodes = random_structure(rnd)
        # one layout for the whole file, or a different one for every statement (mixed line endings, indentation, spacing)
        lays = [random_layout(rnd)] if rnd.random() < 0.5 else [random_layout(rnd) for _ in range(max(1, len(nodes)))]
        structs.append({"exh": False, "lays": lays, "nodes": nodes})
    wd = ctx.sub("spoksyntax")
    lex = dict(LEX)
    trimmed = {}
    for k in COMS:
        lex["t_" + k] = LEX[k].strip()
        trimmed[k] = "t_" + k
    LEXALL.update(lex)
    json.dump({k: len(v) for k, v in lex.items()}, open(os.path.join(wd, "lexemes.json"), "w"))
    json.dump(trimmed, open(os.path.join(wd, "trimmed.json"), "w"))
    json.dump(structs, open(os.path.join(wd, "structures.json"), "w"))
    r = vlib.tlc(ctx, "SpokSyntax", "INIT Init\nNEXT Next\nINVARIANTS TokensOrdered EOFAtEnd NoAccidentalDoc Emit\n", workers=8,
                 timeout=1800, workdir=wd, heap="8g", dump_trace=False)
    if r.error or r.violated:
        raise Machinery("SpokSyntax check failed: %s %s" % (r.violated, (r.error or "")[:1500]))
    items = []
    for l in r.out.splitlines():
        if not l.startswith('<<"SYN"'):
            continue
        j = l[l.index(',') + 1:].strip()
        if j.endswith(">>"):
            j = j[:-2].strip()
        sc = json.loads(json.loads(j))
        b = render(sc["pieces"])
        toks = sc["toks"]
        if toks[-1]["pos"] != len(b):
            raise Machinery("SpokSyntax denotation and rendering disagree on the text length (%d vs %d)" % (toks[-1]["pos"], len(b)))
        st = structs[sc["si"] - 1]
        items.append((b, expected_tree(st["nodes"]), {"toks": toks, "pp": None, "fmt": render(sc["fmt"]).hex()}, "syntax-exh" if st["exh"] else "syntax-rand"))
    if not items:
        raise Machinery("SpokSyntax produced no scenarios")
    log("SpokSyntax: %d scenarios (structure x layout) rendered by TLC, %d distinct states" % (len(items), r.distinct))
    _cache[key] = (items, r)
    return items, r


def generated(ctx, pid, tier):
    items, _ = spoksyntax(ctx, tier)
    out = list(items)
    if pid != "C06":
        # every prefix of a sample of the valid generated programs (truncation) -- expectations do not apply to prefixes
        rnd = random.Random(ctx.seed + 1)
        for b, _, _, _ in rnd.sample(items, min(len(items), 60 if tier == "quick" else 600)):
            for k in range(len(b)):
                out.append((b[:k], None, None, "syntax-prefix"))
        for src in EXTRA:
            out += src(ctx, pid, tier)
    return out


def model_checks(ctx, pid, tier):
    _, r = spoksyntax(ctx, tier)
    info = {"SpokSyntax": {"distinct_states": r.distinct, "invariants": ["TokensOrdered", "EOFAtEnd", "NoAccidentalDoc"]},
            "states": r.distinct, "transitions": max(r.generated, r.distinct)}
    for mc in EXTRA_MC:
        mc(ctx, pid, tier, info)
    return info


EXTRA = []
EXTRA_MC = []


# ---------------------------------------------------------------- loose layouts (accepted-but-unusual texts) for C07 C11 C15 (and C08 C16)
L_IDENTS = [b"x", b"tasks", b"taskx", b"task", b"join", b"T", "é".encode(), b"_a", b"mytask", b"exec", b"task_a", "task\u05d0".encode(), "\u05d0".encode()]
# names the grammar does not admit today (a digit, a hyphen, a dot inside): every text with one of them is rejected by the unchanged
# lexer, so they demand nothing there -- but a change that widens the grammar makes them parse, and then C07 C11 C15 apply to them
L_IDENTS_WIDE = [b"task2", b"task_2", b"x1", b"py3", b"tasks3", b"a-b", b"a.b", b"task-a"]
L_STRS_WIDE = [b'"say \\"hi\\""', b'"one\\" \\"two"', b'"a\\"b"']     # escaped quotes: not part of today's grammar either
L_STRS = [b'"a"', b'""', b'"task"', b'"*.go"', b'"a b"', b'"a\\b"', b'"50%"', b'"x\ty"', b'"\nabc"', b'"\n"']
L_COMMENTS = [b" c", b"", b" ", b"x", b" task t() {", b"#"]
L_CMDS = [b"go build", b"x", b"echo {{.x}}", b"ls -l", b"task x", b"echo a\r", b"ls \r", b"a\r\r", b"b  ", b"echo {{", b"x}} y", b"echo {{ .x", b"}} z"]
L_SEPS = [b"", b"", b" ", b" ", b"\n", b"\n", b"\t", b"  ", b"\n\n", b" \n", b"\r\n", b"\r", b"\r "]


def loose_text(rnd, wide=False):
    toks = []
    L_IDENTS = globals()["L_IDENTS"] + (L_IDENTS_WIDE if wide else [])
    L_STRS = globals()["L_STRS"] + (L_STRS_WIDE if wide else [])

    def arg():
        return rnd.choice(L_STRS) if rnd.random() < 0.5 else rnd.choice(L_IDENTS)

    def args():
        out = [b"("]
        n = rnd.choice([0, 0, 1, 1, 2, 3])
        for i in range(n):
            out.append(arg())
            if i < n - 1 or rnd.random() < 0.2:
                out.append(b",")
        out.append(b")")
        return out

    for _ in range(rnd.randint(1, 4)):
        r = rnd.random()
        if r < 0.3:
            toks += [b"#" + rnd.choice(L_COMMENTS), b"\n"]
        elif r < 0.6:
            toks += [rnd.choice(L_IDENTS), b":="]
            rr = rnd.random()
            if rr < 0.5:
                toks.append(rnd.choice(L_STRS))
            elif rr < 0.7:
                toks.append(rnd.choice(L_IDENTS))
            else:
                toks += [rnd.choice([b"join", b"exec", b"x"])] + args()
        else:
            if rnd.random() < 0.4:
                toks += [b"#" + rnd.choice(L_COMMENTS), b"\n"]
            toks += [b"task", rnd.choice(L_IDENTS)] + args()
            if rnd.random() < 0.5:
                toks.append(b"->")
                if rnd.random() < 0.5:
                    toks.append(arg())
                else:
                    toks += args()
            toks.append(b"{")
            n = rnd.choice([0, 1, 1, 2, 3])
            for i in range(n):
                toks.append(rnd.choice(L_CMDS))
                if i < n - 1 or rnd.random() < 0.6:
                    toks.append(b"\n")
            toks.append(b"}")
    # one random token-level edit in a third of the texts: syntax errors in the middle of multi-line constructs
    if rnd.random() < 0.35 and toks:
        k = rnd.randrange(len(toks))
        op = rnd.random()
        if op < 0.3:
            del toks[k]
        elif op < 0.5:
            toks.insert(k, toks[k])
        elif op < 0.7 and k + 1 < len(toks):
            toks[k], toks[k + 1] = toks[k + 1], toks[k]
        else:
            toks.insert(k, rnd.choice([b"{", b"}", b"(", b")", b",", b"->", b":=", b"#", b'"', b"\n", b"task", b"x"]))
    out = b""
    for i, t in enumerate(toks):
        out += t
        if t == b"\n":
            out += rnd.choice([b"", b"", b"", b"  ", b"\t", b"\r", b" \r"])      # indentation, or a stray carriage return, at the line start
            continue
        if i + 1 < len(toks) and toks[i + 1] != b"\n":
            out += rnd.choice(L_SEPS)
    if rnd.random() < 0.7:
        out += rnd.choice([b"\n", b" ", b"\n\n"])
    return out


def loose(ctx, pid, tier):
    rnd = random.Random(ctx.seed + 7)
    n = 60000 if tier == "quick" else 700000
    seen = set()
    out = []
    for k in range(n):
        b = loose_text(rnd, wide=(k % 8 == 7))
        if b not in seen:
            seen.add(b)
            out.append((b, None, None, "loose"))
    return out


EXTRA.append(loose)


# ---------------------------------------------------------------- LexSM / ParseSM: model check + export of every reachable finished scan
CLS = {"sp": b" ", "tab": b"\t", "nl": b"\n", "cr": b"\r", "t": b"t", "a": b"a", "s": b"s", "k": b"k", "x": b"x", "us": b"_",
       "hash": b"#", "q": b'"', "lp": b"(", "rp": b")", "lb": b"{", "rb": b"}", "com": b",", "col": b":", "eq": b"=", "min": b"-",
       "gt": b">", "dot": b".", "E1": b"\xc3", "E2": b"\xa9", "F1": b"\xd7", "F2": b"\x90", "bad": b"\xff"}
ALPHA14 = ["sp", "nl", "cr", "t", "a", "s", "k", "hash", "q", "lp", "rp", "lb", "rb", "F1", "F2"]
ALPHA19 = ["sp", "nl", "cr", "t", "a", "s", "k", "x", "hash", "q", "lp", "rp", "lb", "rb", "col", "eq", "min", "gt", "com"]


# keyword-rich prefixes: the exhaustive exploration continues from each of them (MaxLen = len(prefix) + extra)
PREFIXES = [
    "t a s k",                                   # keyword boundary: task<x>
    "t a s k sp a",
    "t a s k sp a lp",                           # argument list
    "t a s k sp a lp q a q",
    "t a s k sp a lp a com",
    "t a s k sp a lp rp",                        # after the head
    "t a s k sp a lp rp sp min gt",              # outputs
    "t a s k sp a lp rp sp min gt sp lp",
    "t a s k sp a lp rp sp min gt sp lp q a q",
    "t a s k sp a lp rp sp min gt sp q a q",
    "t a s k sp a lp rp sp lb",                  # body
    "t a s k sp a lp rp sp lb nl a",
    "t a s k sp a lp rp sp lb nl a cr nl",
    "t a s k sp a lp rp sp lb sp a sp",
    "t a s k sp a lp rp sp lb a lb lb",          # interpolation inside a command
    "t a s k sp a lp rp sp lb rb",
    "t a s k sp a lp rp sp lb rb nl",
    "hash a nl t a s k sp a lp",                 # docstring
    "hash nl t a s k",
    "a sp col eq",                               # declaration
    "a sp col eq sp q",
    "a sp col eq sp a lp",
    "a sp col eq sp a lp q a q",
    "a sp col eq sp q a q nl",
    "t a s k sp col eq",                         # a variable named task
    "a nl t a s k",
]


def lexsm_run(ctx, alpha, maxlen, prefix):
    # TLC configuration files have no tuple syntax: the prefix is a definition in a generated wrapper module
    mod = ("---- MODULE MCLex ----\nEXTENDS ParseSM\nPrefixDef == <<%s>>\n====\n" % ", ".join('"%s"' % c for c in prefix)).encode()
    cfg = ("INIT Init\nNEXT Next\nCONSTANTS Alphabet = {%s} MaxLen = %d Variant = \"fixed\" Prefix <- PrefixDef\n"
           "INVARIANTS Tiles EOFAtEnd ErrLineOK PosSane NoHang NeverPastEnd Located EmitLP\nPROPERTY Progress\nCHECK_DEADLOCK FALSE\n"
           % (", ".join('"%s"' % a for a in alpha), maxlen))
    r = vlib.tlc(ctx, "MCLex", cfg, files=[("MCLex.tla", mod)], workers=12 if not prefix else 2, timeout=3000,
                 heap="12g" if not prefix else "3g", dump_trace=False)
    if r.error or r.violated:
        raise Machinery("LexSM/ParseSM model check failed (prefix %r): %s %s" % (" ".join(prefix), r.violated, (r.error or "")[:1500]))
    items = []
    for l in r.out.splitlines():
        if not l.startswith('<<"LP"'):
            continue
        j = l[l.index(',') + 1:].strip()
        if j.endswith(">>"):
            j = j[:-2].strip()
        sc = json.loads(json.loads(j))
        b = b"".join(CLS[c] for c in sc["inp"])
        toks = [{"ty": t["ty"], "pos": t["s"], "len": t["e"] - t["s"], "line": t["ln"]} for t in sc["toks"]]
        items.append((b, None, {"toks": toks, "pp": {"k": sc["k"], "line": sc["line"]}}, "lexsm" if not prefix else "lexsm-deep"))
    return items, r.distinct, r.generated


def lexsm(ctx, tier):
    key = ("lexsm", tier)
    if key in _cache:
        return _cache[key]
    from concurrent.futures import ThreadPoolExecutor
    base_alpha = ALPHA14 if tier == "quick" else list(CLS)
    extra = 2 if tier == "quick" else 3
    jobs = [(base_alpha, 4, [])] + [(list(CLS), len(p.split()) + extra, p.split()) for p in PREFIXES]
    items, states, gen = [], 0, 0
    base_items, st, g = lexsm_run(ctx, *jobs[0])
    items += base_items
    states += st
    gen += g
    seen = {b for b, _, _, _ in items}
    ndeep = 0
    with ThreadPoolExecutor(max_workers=6) as ex:
        for its, st, g in ex.map(lambda j: lexsm_run(ctx, *j), jobs[1:]):
            states += st
            gen += g
            for it in its:
                if it[0] not in seen:
                    seen.add(it[0])
                    items.append(it)
                    ndeep += 1
    log("LexSM/ParseSM: %d distinct states, %d finished scans exported with predicted tokens and parse outcome (%d from %d keyword-rich prefixes + %d free bytes)"
        % (states, len(items), ndeep, len(PREFIXES), extra))
    _cache[key] = (items, states, gen)
    return _cache[key]


def lexsm_source(ctx, pid, tier):
    return lexsm(ctx, tier)[0]


def lexsm_mc(ctx, pid, tier, info):
    _, states, gen = lexsm(ctx, tier)
    info["LexSM_ParseSM"] = {"distinct_states": states, "invariants": ["Tiles", "EOFAtEnd", "ErrLineOK", "PosSane", "NoHang", "NeverPastEnd", "Located"],
                             "action_property": "Progress", "variant": "fixed"}
    info["states"] = info.get("states", 0) + states
    info["transitions"] = info.get("transitions", 0) + gen


EXTRA.insert(0, lexsm_source)
EXTRA_MC.append(lexsm_mc)
