"""Trace validation of recorded hook traces of the real worker pool against HashPool (HashPoolTrace.tla)."""
import json
import os

import vlib
from vlib import Machinery, log


def build(rec):
    ids, nxt = {}, {"reg": 1, "dir": 21, "bad": 31}
    fm = {f["p"]: f for f in rec["files"]}

    def eid(p):
        if p not in ids:
            f = fm.get(p, {"k": "absent"})
            k = "bad" if (p in rec.get("vanish", []) or f["k"] in ("absent", "dangling", "eio")) else f["k"]
            if k in ("fifo", "dev", "ldir"):       # neither regular nor directory: skipped by a worker like a directory
                k = "dir"
            ids[p] = nxt[k]
            nxt[k] += 1
        return ids[p]

    lst = [eid(p) for p in rec["list"]]
    main, prod, closer, workers, order = [], [], [], {}, []
    ncpu = None
    for e in rec["trace"]:
        ev, g, f = e["ev"], e["g"], e.get("file", "")
        if ev == "pool.start":
            ncpu = e.get("n1")
        elif ev in ("worker.recv", "worker.send", "worker.exit"):
            if g not in workers:
                workers[g] = []
                order.append(g)
            workers[g].append({"ev": {"worker.recv": "recv", "worker.send": "send", "worker.exit": "exit"}[ev], "e": eid(f) if f else 0})
        elif ev == "main.recv":
            main.append({"ev": "mrecv", "e": eid(f)})
        elif ev == "main.return":
            main.append({"ev": "return", "e": 0})
        elif ev == "jobs.closed":
            prod.append({"ev": "jclosed", "e": 0})
        elif ev == "results.closed":
            closer.append({"ev": "rclosed", "e": 0})
    if ncpu is None:
        return None
    # workers that never logged anything (they left before doing anything visible) still exist in the model
    procs = [main, prod, closer] + [workers[g] for g in order]
    while len(procs) < 3 + ncpu:
        procs.append([])
    return {"list": lst, "ncpu": max(ncpu, 0) if lst else 1, "procs": procs, "id": rec["id"]}


def validate(ctx, recs):
    sel = [r for r in recs if r.get("trace") and len(r["list"]) <= 5 and 0 <= r.get("workers", 99) <= 4 and r["outcome"] == "ok"]
    traces = [t for t in (build(r) for r in sel) if t is not None and all(len(p) <= 14 for p in t["procs"])]
    traces = traces[:600]
    if not traces:
        return {"validated": 0}
    # binding self-test: a trace with one worker.send event removed must be rejected
    corrupt = None
    for t in traces:
        for pi in range(3, len(t["procs"])):
            if any(e["ev"] == "send" for e in t["procs"][pi]):
                corrupt = json.loads(json.dumps(t))
                k = [i for i, e in enumerate(corrupt["procs"][pi]) if e["ev"] == "send"][0]
                del corrupt["procs"][pi][k]
                break
        if corrupt:
            break
    ntr = len(traces)
    if corrupt:
        traces = traces + [corrupt]
    wd = ctx.sub("hashtrace")
    json.dump(traces, open(os.path.join(wd, "traces.json"), "w"))
    cfg = ("SPECIFICATION TSpec\nCONSTANTS Entries = {%s} RegularE = {%s} DirE = {%s} BadE = {%s} MaxLen = 5 CPUs = {1} Variant = \"fixed\"\n"
           "INVARIANTS Accepted\nCHECK_DEADLOCK FALSE\n" % (", ".join(map(str, range(1, 41))), ", ".join(map(str, range(1, 21))),
                                                          ", ".join(map(str, range(21, 31))), ", ".join(map(str, range(31, 41)))))
    r = vlib.tlc(ctx, "HashPoolTrace", cfg, workers=4, timeout=900, workdir=wd, dump_trace=False, heap="6g")
    if r.error:
        raise Machinery("HashPoolTrace failed: %s" % r.error[:1500])
    acc = set()
    for l in r.out.splitlines():
        if l.startswith('<<"ACC"'):
            acc.add(int(l.split(",")[1].strip(" >")))
    if corrupt:
        if (ntr + 1) in acc:
            raise Machinery("binding self-test failed: a hook trace with a worker.send event removed was accepted by HashPoolTrace")
        traces = traces[:ntr]
    rejected = [traces[i]["id"] for i in range(len(traces)) if (i + 1) not in acc]
    if rejected:
        ctx.notes.append("model_drift: %d recorded hook traces of the real pool are not behaviours of HashPool (scenario ids %s)" % (len(rejected), rejected[:5]))
    log("hook traces: %d validated against HashPool, %d rejected (drift), %d states" % (len(traces), len(rejected), r.distinct))
    return {"validated": len(traces), "selftest_corrupted_trace_rejected": bool(corrupt), "accepted": len(traces) - len(rejected), "rejected_model_drift": len(rejected), "states": r.distinct}
