#!/usr/bin/env python3
"""Regenerates /verif/MANIFEST.json from the table below (single source, keeps it valid at all times)."""
import json
import os
import subprocess

VERIF = os.path.dirname(os.path.dirname(os.path.abspath(__file__)))

TB = ("TLC (tla2tools 1.8.0) as model checker and as evaluator of the judge relations; the Go harness under /verif/harness that "
      "drives the real packages built from /repo's working tree with -tags verif; ")

# id -> (engine, technique, level text, level note, design ref)
CHECKS = {
    "C04": ("HashPool", "TLC model check of the pool (all interleavings) + TLC-enumerated completion orders forced through a hook gate "
            "into the real pool + TLC relation evaluation over recorded real executions",
            "The HashPool TLA+ model is checked exhaustively (every list up to the bound, 1-3 CPUs, every interleaving) for schedule "
            "independence; every completion order TLC finds reachable is forced in the real worker pool through the worker.send gate "
            "under taskset; every (file-system assignment, list) of a small path universe is hashed for real in every permutation, with the paths spelled "
            "absolutely / relatively / with dot elements, with entries that are not regular files, and under several CPU/GOMAXPROCS settings, and TLC evaluates determinism / same-collection-same-digest / different-collection-different-"
            "digest over all records.",
            TB + "SHA-256 collision resistance; runtime.NumCPU follows the affinity mask.", "5 C04"),
    "C18": ("HashPool", "TLC model check of the pool incl. liveness + supervised real executions under the race detector judged by a TLC relation",
            "HashPool is model checked for crash freedom, error-iff-unreadable, no send on a closed channel, close only after all workers left, "
            "no leak, no deadlock, and termination under weak fairness; the real pool is run in watched child processes built with the race "
            "detector over list sizes around the worker-count boundary up to 10^4 and with missing / dangling / vanishing entries at every "
            "position of short lists, named pipes, devices, links to directories and a file that opens but cannot be read (EIO) as entries, with files churned concurrently (vanishing between open, stat and read), repeated, under 7 CPU settings, "
            "with goroutine accounting; TLC evaluates Clean_C18 on every record, and validates the recorded hook traces of the real pool against "
            "the model (HashPoolTrace: one event sequence per goroutine, TLC searches an allowed interleaving).",
            TB + "the Go race detector and runtime.NumGoroutine as observation sources; a watchdog time-out is read as a hang.", "5 C18"),
}

RUNTB = TB + ("ideal-digest assumption discharged by C04; task commands replaced by a recording runner; map-iteration "
              "nondeterminism inside one invocation sampled by repetition. ")
RUNTECH = ("exhaustive exploration of the REAL state space of small projects (byte-exact directory snapshots, every edit/run/force/failure "
           "action from every state; failures are a non-zero exit status or a command the runner cannot run at all) judged by TLC as graph x ghost-history product (SpokRunTrace); protocol model SpokRun.tla model-checked "
           "against the same clauses; TLC -simulate histories replayed into the code and trace-validated against the protocol model")
for _pid, _txt in (
    ("C01", "never a skip unless the inputs equal those of the last success"),
    ("C02", "a task unchanged since its last success is skipped, independently of the other tasks of the run; dependency-less tasks always run"),
    ("C14", "--force runs the whole closure, reports no skip, and leaves a cache that never justifies a wrong skip later"),
    ("C10", "after a kill at any hook point / inside any command / a torn cache file, never a wrong skip, only normal behaviour or an explicit cache error")):
    CHECKS[_pid] = ("SpokRun", RUNTECH,
                    "For each of several small programs (1-3 tasks mixing literal, glob, shared and task dependencies, one with a generator task that "
                    "writes a file its consumer's glob matches, one with a task that rewrites a file shared by an earlier and a later task of the same run; "
                    "each task is judged on the files as they were when its turn came and when its last command had finished) the real reachable state "
                    "space of the project directory is explored to a fixpoint, so histories of any length over the action alphabet are covered; "
                    "TLC checks the recorded graph in product with the ghost history and evaluates: " + _txt + ". The wal protocol model is "
                    "checked exhaustively against the same clauses (and the pinned variant is refuted), and the code is shown to follow the model on "
                    "model-generated histories (trace validation, SpokRunModelTrace). A first stage of guided adversarial histories and random walks, "
                    "judged by the same invariants, finds shallow violations quickly." + (" For C10 a real kill -9 of the built binary from inside a task "
                    "command is also executed (24 histories) and judged by the same invariants; the guided histories also leave an empty temporary / lock file next to the cache file, as a kill inside an atomic write would." if _pid == "C10" else
                    (" For C14 --force is also exercised through the built binary (8 histories with named and unnamed requests, i.e. the task called default) and judged by the same invariants." if _pid == "C14" else "")), RUNTB, "5 run/cache family; 9")

CHECKS["C03"] = ("TaskGraph", "TLC model check of the closure + Kahn model over every configuration (initial states) incl. termination; every "
                 "dependency function x request list executed for real (repeated for map order) and judged by a TLC relation",
                 "TaskGraph.tla is checked for every configuration over 3 names plus an undefined name (definitions once/twice/missing, every "
                 "dependency function incl. self loops and cycles, every request list up to length 2): once-each, dependencies-first in every state, "
                 "error-iff-anomaly, error-runs-nothing, termination. The real SpokFile.Run is executed on every dependency function over 3 (quick) / "
                 "4 (thorough) names x request lists, plus duplicate/missing definitions, failing commands, warm-cache second runs and sampled "
                 "5-8 task graphs, dependencies listed twice, global variables named like tasks, each repeated so the map order inside the sort varies; TLC evaluates Allowed_C03 on every record.",
                 TB + "map-iteration order sampled by repetition; commands replaced by a recording runner.", "5 C03")

CHECKS["C05"] = ("Glob", "declarative glob semantics in TLA+ (model-checked frame properties) used as oracle: TLC evaluates Conforms_C05 over the real "
                 "expansion of every tree of a path pool x every pattern of a pattern pool",
                 "Glob.tla defines what a pattern denotes (segment wildcards, **, alternation, the leading-dot rule); TLC checks the semantics' own "
                 "frame properties over every tree x pattern of a sub-pool. Every subset of a 10 (quick) / 12 (thorough) path pool is built on disk and "
                 "every one of 45 patterns (wildcards, **, ?, classes, alternation also in directory segments, hidden branches, `./` and `//` spellings), "
                 "and sampled trees with symbolic links to directories, expanded twice through SpokFile.Run; TLC compares each real expansion with Glob!Expand and the two "
                 "expansions with each other.", TB + "the transcription of doublestar's matching rules in Glob.tla (validated on the pool).", "5 C05")

CHECKS["C17"] = ("Find", "TLC model check of the upward walk as a state machine over every configuration and path spelling incl. termination; TLAPS proof "
                 "of the safety part for every depth; every directory chain within bounds built on disk and searched with the real file.Find under a "
                 "watchdog, in several spellings of the two paths, judged by a TLC relation",
                 "Find.tla is checked for every chain configuration, start, stop and pair of path spellings (clean, trailing separator, dotted, relative "
                 "to a working directory): the walk terminates, returns the declaratively defined nearest spokfile and never looks above the stop "
                 "directory; the pinned loop, the string-comparing walk and the walk that climbs above the stop directory are refuted. In the thorough tier FindProof.tla (TLAPS, 376 obligations) proves "
                 "Correct (CHOOSE-free form, TLC checks the two forms agree), NeverAboveStop and a strictly decreasing natural-valued rank (termination) for every depth. Every chain of depth <= 2 (quick) / <= 3 "
                 "plus sampled depth 4 (thorough) x start x stop is built for real and searched in a watched child process, also with the other spellings "
                 "(chdir for relative ones), with near-miss entry names, chains through directories named spokfile, chains 40 and 130 levels deep and directories whose paths are "
                 "string prefixes of one another (proj / project); TLC evaluates Conforms_C17 on every record.",
                 TB + "tlapm 1.6.0-pre (thorough tier); a call not returning within 5 s is a hang; nothing named spokfile above the sandbox.", "5 C17; 9")

SYNTB = TB + ("white space between generated tokens is ASCII; hex-encoded strings compared byte for byte; a parse not returning in 8 s is a hang. ")
SYNTECH = ("input spaces generated from TLA+ models (SpokSyntax generative grammar rendered by TLC with the token stream and tree each text denotes; "
           "LexSM/ParseSM state machines) plus bounded-exhaustive class-alphabet strings, repo spokfiles and all truncations, loose layouts (an eighth of them with names today's grammar rejects, for changes that widen it); real "
           "lexer/parser/printer run on every input; TLC evaluates the SyntaxJudge relation")
for _pid, _txt in (
    ("C06", "AstEq_C06: the parse tree equals the structure the text was written from, for every structure x layout (incl. lists spread over "
            "lines and any spacing inside the braces of one-line bodies)"),
    ("C16", "Tiles_C16: token values are the input slices at their offsets, non-overlapping, only white space between, exact line numbers, finite, EOF at the end"),
    ("C08", "Total_C08: no panic / hang / crash, a second parse gives the identical result, every error cites a line within the input and quotes it "
            "(also after lines longer than 64 KiB)"),
    ("C07", "SemEq_C07: the formatted text parses and defines the same variables and tasks in the same order; FmtOnDisk_C07: after `spok --fmt` (the "
            "binary, as nobody; sample of generated inputs plus hand-written complete programs) the file on disk holds exactly the formatter's text, "
            "and is untouched when spok refuses"),
    ("C11", "Idem_C11: formatting the formatted text returns it byte for byte; FmtOnDisk_C11: a sample of parsed inputs is formatted in place twice with the built binary and the second run changes nothing"),
    ("C15", "Kept_C15: the sequence of non-empty comments, assignments and tasks-with-docstring is unchanged by formatting; KeptOnDisk_C15: the same for the file `spok --fmt` (built binary) leaves on disk, parsed again")):
    CHECKS[_pid] = ("SpokSyntax", SYNTECH,
                    "SpokSyntax.tla renders abstract spokfiles in every layout with up to two deviations from the default (small structures) and in random "
                    "layouts (thousands of random structures), stating the denoted token stream and tree; together with every string over the 25-class lexer "
                    "alphabet up to the tier's bound, the repository's spokfiles with every truncation, truncations of generated programs and loose layouts "
                    "they are fed to the real lexer, parser and printer in watched child processes. TLC evaluates " + _txt + ". The models also predict the "
                    "token stream, the parse outcome (LexSM/ParseSM: every input up to 4 bytes, and every continuation by 2 / 3 bytes of 26 keyword-rich prefixes) and the formatter's canonical text (SpokSyntax's printer); "
                    "disagreement with the code is reported as drift.", SYNTB, "5 " + _pid + "; 9")

CLITB = TB + ("the built binary run as uid nobody in a sandbox HOME with a scrubbed environment; side-effect log as ground truth of execution; "
              "snapshots compare path, kind, mode and SHA-256. ")
CLITECH = ("abstract CLI transition system in TLA+ (SpokCLI.tla) model-checked for its frame facts and used to enumerate scenarios; the built binary run "
           "on every scenario in a sandbox; TLC evaluates the Conforms relation on recorded before/after tree snapshots, outputs and side-effect logs")
for _pid, _txt in (
    ("C09", "Conforms_C09: an executed failing command (exit status, failing utility, missing program, child killed by a signal, subshell) makes the invocation exit non-zero and name a failing task under plain/--quiet/--json/--force, and the failed "
            "task executes again in a later run; the history clause Inv_C09b is also checked on the exhaustively explored real state graph of the run family"),
    ("C12", "Conforms_C12: without a clean task exactly the designated outputs (literal, named, glob) and the cache directory disappear and nothing else changes; the "
            "spokfile, its directory and every ancestor survive whatever the outputs evaluate to (outputs spelled relatively, absolutely, with "
            "./ .. and trailing slashes, as links, nested in each other); with a clean task only that task runs"),
    ("C13", "Conforms_C13: every command's interpolated text equals the declarative substitution and `echo \"$NAME\"`, `printenv NAME` and `sh -c` (a started program's environment) print the spokfile value whatever the ambient "
            "environment and .env contain; a failing exec is an error and nothing runs"),
    ("C19", "Conforms_C19: every changed path is allowed by MayWrite(action, state) -- the cache directory, the spokfile under --fmt when it parses and loads, a new "
            "spokfile and an appended .gitignore under --init -- for every TLC-enumerated (spokfile kind x flag set x cwd x .gitignore x .env x cache) scenario, also with the spokfile reached through a symbolic link, "
            "the effective action being selected by the dispatch precedence of the abstract machine"),
    ("C20", "Conforms_C20: the --json document lists exactly the run's tasks in execution order with skipped flags (only a task with a file dependency, and never in a first or forced run) and per-command text/stdout/stderr/status "
            "(outputs with and without final newline, stderr only, several lines, none), --quiet "
            "prints nothing, --show lists every task once sorted with its docstring, --vars every variable with its value (also with --json / --force added), "
            "no arguments runs default or lists")):
    CHECKS[_pid] = ("SpokCLI", CLITECH, "SpokCLI.tla's abstract machine is model-checked (FmtOnlyWhenValid, CacheOnlyByRuns, ReadOnlyActions); scenarios are built as real "
                    "project trees and the built binary is run on each as an unprivileged user. TLC evaluates " + _txt + ".", CLITB, "5 " + _pid)

NOT_YET = {}


def main():
    props = [json.loads(l) for l in open(os.path.join(VERIF, "properties.jsonl"))]
    hooks = subprocess.run(["git", "-C", "/repo", "log", "--format=%h %s", "--grep=^verif:"], capture_output=True, text=True).stdout.split("\n")
    man = {
        "version": 1,
        "setup_cmd": "tools/setup",
        "hooks": {
            "guard": "verif",
            "enable": "go build -tags verif (the checks build /verif/harness/cmd/drive and /repo/cmd/spok with it from /repo's working tree)",
            "baseline_off_cmd": "cd /repo && go test -mod=mod -json -vet=off -count=1 -timeout 25m ./...",
            "source_commits": [h.split()[0] for h in hooks if h.strip()],
            "add_only": True,
        },
        "engines": [],
        "checks": [],
        "not_applicable": [],
        "notes": "Every check is `tools/check <id> --tier quick|thorough` (honours VERIF_SEED); exit 0 held / 1 VIOLATION / 2 machinery "
                 "failure. Specifications are in /verif/spec, the Go conformance harness in /verif/harness, DESIGN.md explains the approach.",
    }
    engines = {}
    for p in props:
        pid = p["id"]
        if pid in CHECKS:
            eng, tech, text, note, ref = CHECKS[pid]
            engines.setdefault(eng, []).append(pid)
            man["checks"].append({
                "property_id": pid,
                "quick_cmd": "tools/check %s --tier quick" % pid,
                "thorough_cmd": "tools/check %s --tier thorough" % pid,
                "evidence_file": "/verif/evidence/%s.json" % pid,
                "replay_cmd_template": "tools/check %s --replay {path}" % pid,
                "engine": eng,
                "level_claimed": {"category": "model_checking", "text": text, "design_ref": "DESIGN.md section " + ref},
                "level_note": note,
                "technique": tech,
            })
        else:
            man["not_applicable"].append({"property_id": pid, "reason": NOT_YET.get(
                pid, "check not built yet in this session (planned: see DESIGN.md section 5); nothing is claimed for it")})
    for e, ids in engines.items():
        man["engines"].append({"name": e, "path": "/verif/spec/%s.tla" % e, "serves_properties": ids,
                               "kind_free_text": "TLA+ specification checked with TLC, bound to the code by the Go harness (tools/check)"})
    with open(os.path.join(VERIF, "MANIFEST.json"), "w") as f:
        json.dump(man, f, indent=1)
        f.write("\n")


if __name__ == "__main__":
    main()
