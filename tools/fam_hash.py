"""C04 / C18: the HashPool specification, its model check, and the conformance of hash.Concurrent.Hash.

spec -> code : TLC enumerates every completion order the pool model allows (per list, per CPU count);
               each is forced through the worker.send gate of the real pool (under taskset).
code -> spec : every real execution (lists over a small path universe, every permutation, bad entries at
               every position, CPU counts, repetitions, race detector) is recorded and judged by TLC with
               the property-level relations of HashJudge.tla.
"""
import itertools
import json
import os
import random
import subprocess
from concurrent.futures import ThreadPoolExecutor

import vlib
from vlib import Machinery, log

ID2FILE = {1: ("a", "reg"), 2: ("ab", "reg"), 3: ("b", "reg"), 4: ("d", "dir"), 5: ("m", "absent")}


def mc_cfg(variant, maxlen, cpus, bad, liveness, emit):
    inv = "TypeOK SchedIndep ErrorIffBad NeverCrashes NoSendOnClosed CloseAfterExit NoLeak NoDeadlock"
    if emit:
        inv += " EmitOrders"
    ents = "{1, 2, 3, 4, 5}" if bad else "{1, 2, 3, 4}"
    return ("SPECIFICATION Spec\nCONSTANTS Entries = %s RegularE = {1, 2, 3} DirE = {4} BadE = %s MaxLen = %d CPUs = {%s} "
            "Variant = \"%s\"\nINVARIANTS %s\n%sCHECK_DEADLOCK FALSE\n") % (
        ents, "{5}" if bad else "{}", maxlen, ", ".join(map(str, cpus)), variant, inv,
        "PROPERTY Returns Quiesces\n" if liveness else "")


def run_mc(ctx, maxlen, cpus, bad, liveness, emit, timeout=900):
    r = vlib.tlc(ctx, "HashPool", mc_cfg("fixed", maxlen, cpus, bad, liveness, emit), workers=min(8, vlib.NCPU),
                 timeout=timeout, heap="8g")
    if r.error or r.violated:
        raise Machinery("HashPool model check failed (%s): %s" % (r.violated, (r.error or r.out[-2000:])))
    orders = []
    for l in r.out.splitlines():
        if l.startswith('<<"ORD"'):
            j = l[l.index(',') + 1:].strip()
            if j.endswith(">>"):
                j = j[:-2].strip()
            orders.append(json.loads(json.loads(j)))
    return r, orders


def vacuity_probe(ctx):
    """The pinned variant must violate NeverCrashes: shows the invariant is not vacuous."""
    r = vlib.tlc(ctx, "HashPool", mc_cfg("pinned", 2, [1, 2], True, False, False), workers=4, timeout=300)
    return r.violated == "NeverCrashes"


def files_for(ids):
    out, seen = [], set()
    for i in sorted(set(ids) | {1, 2, 3, 4}):
        p, k = ID2FILE[i]
        if p in seen:
            continue
        seen.add(p)
        out.append({"p": p, "k": k, "c": {"a": "x", "ab": "xa", "b": ""}.get(p, "")})
    return out


def drive(ctx, driver, root, scen, taskset=None, env=None, timeout=None):
    """Run one batch through `drive hash`; returns records (list of dict)."""
    d = ctx.sub("hashio")
    tag = "%d-%d" % (os.getpid(), random.getrandbits(40))
    inp = os.path.join(d, "in-%s.ndjson" % tag)
    outp = os.path.join(d, "out-%s.ndjson" % tag)
    vlib.write_ndjson(inp, scen)
    cmd = [driver, "hash", "--root", root, "--in", inp, "--out", outp]
    if taskset:
        cmd = ["taskset", "-c", taskset] + cmd
    e = dict(os.environ)
    e["GORACE"] = "halt_on_error=1 exitcode=66"
    if env:
        e.update(env)
    p = subprocess.run(cmd, env=e, capture_output=True, text=True, timeout=timeout)
    if p.returncode != 0:
        raise Machinery("hash driver failed: %s" % p.stderr[-2000:])
    recs = vlib.read_ndjson(outp)
    os.remove(inp)
    os.remove(outp)
    if len(recs) != len(scen):
        raise Machinery("hash driver returned %d records for %d scenarios" % (len(recs), len(scen)))
    return recs


def join(scen, recs, root_id, cfg, taskset=None, env=None):
    out = []
    for s, r in zip(scen, recs):
        if r.get("outcome") == "not-run":
            continue
        if r.get("id") != s["id"]:
            raise Machinery("record/scenario id mismatch")
        if r.get("outcome") == "driver-error":
            raise Machinery("hash driver error: %s" % r.get("err"))
        j = {"id": s["id"], "root": root_id, "files": s["files"], "list": s["list"], "vanish": s.get("vanish", []), "churn": s.get("churn", []),
             "gated": bool(s.get("gated")), "order": s.get("order", []), "spell": s.get("spell", ""),
             "outs": [{"outcome": o["outcome"], "digest": o.get("digest", ""), "n": o.get("n", 1)} for o in r.get("outs", [])],
             "leak": r.get("leak", 0), "outcome": r.get("outcome", "ok"), "feasible": r.get("feasible", True),
             "cfg": cfg, "workers": r.get("workers", -1), "taskset": taskset, "env": env}
        if r.get("synthetic"):
            j["detail"] = (r.get("exit", "") + " " + r.get("stderr", ""))[-600:]
        errs = [o.get("err", "") for o in r.get("outs", []) if o.get("err")]
        if errs:
            j["errs"] = errs[:2]
        if "trace" in r:
            j["trace"] = sorted(r["trace"], key=lambda e: e["seq"])
        out.append(j)
    return out


def nexec(recs):
    return sum(max(1, sum(o.get("n", 1) for o in r["outs"])) for r in recs)


def kind_of(rec, p):
    for f in rec["files"]:
        if f["p"] == p:
            if p in rec.get("vanish", []):
                return "bad"
            return "bad" if f["k"] in ("absent", "dangling", "eio") else f["k"]
    return "bad"


def abs_key(rec):
    """Sorting key only (coverage of the adjacent-pair relations); TLC computes the real AbsBag itself."""
    items = []
    for p in rec["list"]:
        if kind_of(rec, p) == "reg":
            c = [f["c"] for f in rec["files"] if f["p"] == p][0]
            items.append((p, c))
    return (rec["root"], json.dumps(sorted(items)))


def judge(ctx, recs, timeout=900):
    """TLC evaluates HashJudge over the records; returns verdict dict."""
    if not recs:
        raise Machinery("no records to judge")
    wd = ctx.sub("judge-%d" % random.getrandbits(30))
    vlib.write_ndjson(os.path.join(wd, "recs.ndjson"), [tla_rec(r) for r in recs])
    idx = list(range(1, len(recs) + 1))
    oa = sorted(idx, key=lambda i: abs_key(recs[i - 1]))
    od = sorted(idx, key=lambda i: (recs[i - 1]["root"], sorted(o["digest"] for o in recs[i - 1]["outs"])))
    json.dump(oa, open(os.path.join(wd, "ord_abs.json"), "w"))
    json.dump(od, open(os.path.join(wd, "ord_dig.json"), "w"))
    r = vlib.tlc(ctx, "HashJudge", "", workers=1, timeout=timeout, workdir=wd, dump_trace=False, heap="8g")
    vp = os.path.join(wd, "verdict.json")
    if r.error or not os.path.exists(vp):
        raise Machinery("HashJudge evaluation failed: %s" % (r.error or r.out[-2000:]))
    v = json.load(open(vp))
    v["_oa"], v["_od"] = oa, od
    for k in list(v):
        if isinstance(v[k], dict) and not v[k]:
            v[k] = []
    return v


def tla_rec(r):
    fm = {f["p"]: f for f in r["files"]}
    ents = []
    for p in r["list"]:
        f = fm.get(p, {"k": "absent", "c": ""})
        ents.append({"p": p, "k": "vanish" if p in r.get("vanish", []) else f["k"], "c": f.get("c", "")})
    return {"id": r["id"], "root": r["root"], "ents": ents, "gated": r["gated"], "feasible": r["feasible"], "churn": bool(r.get("churn")),
            "outs": [{"outcome": o["outcome"], "digest": o["digest"]} for o in r["outs"]], "leak": r["leak"], "outcome": r["outcome"]}


def perm_lists(entries, maxlen):
    out = [[]]
    for n in range(1, maxlen + 1):
        out += [list(t) for t in itertools.product(entries, repeat=n)]
    return out


# ------------------------------------------------------------------ C04

# entries that are neither regular files nor directories: like directories they are not part of the collection of regular files
SPECIALS = [{"p": "q", "k": "fifo", "c": ""}, {"p": "n", "k": "dev", "c": ""}, {"p": "ld", "k": "ldir", "c": ""}]


def c04_scenarios(tier, seed):
    rnd = random.Random(seed)
    if tier == "quick":
        paths = ["a", "ab", "b", "d/a"]
        contents = ["x", "b", ""]
        maxlen, reps = 3, 2
    else:
        paths = ["a", "ab", "b", "d/a", "d/ab", "e"]
        contents = ["x", "y", "b", "ax", ""]
        maxlen, reps = 3, 2
    entries = paths + ["d"]
    fss = []
    for cs in itertools.product(contents, repeat=len(paths)):
        fss.append([{"p": p, "k": "reg", "c": c} for p, c in zip(paths, cs)] + [{"p": "d", "k": "dir", "c": ""}] + SPECIALS)
    if tier != "quick":
        rnd.shuffle(fss)
        fss = fss[:200]
        # keep single-content-change neighbours together: add all one-file variations of a few bases
        base = fss[0]
        for i in range(len(paths)):
            for c in contents:
                v = [dict(f) for f in base]
                v[i]["c"] = c
                fss.append(v)
    lists = perm_lists(entries, maxlen)
    for sp in ("q", "n", "ld"):
        lists += [[sp], ["a", sp], [sp, "a", "b"], ["d/a", sp, sp]]
    if tier != "quick":
        lists += [list(t) for t in rnd.sample(list(itertools.permutations(entries, 4)), 100)]
        lists += [list(t) for t in rnd.sample(list(itertools.product(entries, repeat=5)), 100)]
    return fss, lists, reps


def run_c04(ctx):
    tier = ctx.tier
    driver = vlib.build_driver(ctx, race=(tier != "quick"))
    # 1. the model: all interleavings, all lists, and the reachable completion orders
    maxlen = 3 if tier == "quick" else 4
    mc, orders = run_mc(ctx, maxlen, [1, 2, 3], bad=False, liveness=(tier != "quick"), emit=True)
    nonvac = vacuity_probe(ctx) if tier != "quick" else None
    log("HashPool MC: %d distinct states, %d reachable (list, cpus, order) terminal states" % (mc.distinct, len(orders)))
    # 2. real executions
    fss, lists, reps = c04_scenarios(tier, ctx.seed)
    nshard = min(vlib.NCPU, 8)
    shards = [[] for _ in range(nshard)]
    sid = 0
    rsp = random.Random(ctx.seed + 5)
    for k, fs in enumerate(fss):
        for l in lists:
            sid += 1
            shards[k % nshard].append({"id": sid, "files": fs, "list": l, "reps": reps})
            # the same list with its paths spelled differently (relative, dotted, mixed): the same (absolute path, content) pairs
            if l and rsp.random() < (0.08 if tier == "quick" else 0.04):
                for sp in ("rel", "dot", "mixed"):
                    sid += 1
                    shards[k % nshard].append({"id": sid, "files": fs, "list": l, "reps": reps, "spell": sp})
    # gated replays of TLC's orders, grouped by cpu count (taskset)
    gated = {}
    for o in orders:
        if not o["order"]:
            continue
        sid += 1
        gated.setdefault(o["ncpu"], []).append({
            "id": sid, "files": files_for(o["list"]), "list": [ID2FILE[i][0] for i in o["list"]],
            "gated": True, "order": [ID2FILE[i][0] for i in o["order"]], "reps": 1})
    recs = []
    rnd = random.Random(ctx.seed)

    def shard_job(k):
        root = os.path.join(ctx.scratch, "h%d" % k, "r")
        out = []
        sc = shards[k]
        out += join(sc, drive(ctx, driver, root, sc), k, "cpus=all")
        # the same root under other CPU counts / GOMAXPROCS: a sample of the same scenarios
        for cpus, gmp in (("0", None), ("0-1", None), ("0-3", None), (None, "1"), (None, "2"), (None, "4")):
            sub = rnd.sample(sc, min(len(sc), 150 if tier == "quick" else 1500))
            env = {"GOMAXPROCS": gmp} if gmp else None
            out += join(sub, drive(ctx, driver, root, sub, taskset=cpus, env=env), k, "taskset=%s gomaxprocs=%s" % (cpus, gmp), cpus, env)
        return out

    def gate_job(ncpu):
        root = os.path.join(ctx.scratch, "h0", "r")   # same root as shard 0 so R1 also spans gated runs
        sc = gated[ncpu]
        return join(sc, drive(ctx, driver, root + "g%d" % ncpu, sc, taskset="0-%d" % (ncpu - 1)), 100 + ncpu, "gated taskset=%d" % ncpu, "0-%d" % (ncpu - 1), None)

    with ThreadPoolExecutor(max_workers=nshard) as ex:
        for out in ex.map(shard_job, range(nshard)):
            recs += out
    with ThreadPoolExecutor(max_workers=3) as ex:
        for out in ex.map(gate_job, sorted(gated)):
            recs += out
    log("C04: %d real records (%d gated)" % (len(recs), sum(len(v) for v in gated.values())))
    # 3. TLC judges
    v = judge(ctx, recs)
    viol = []
    for i in v["Determ_C04"][:5]:
        viol.append(("Determ_C04", [recs[i - 1]]))
    for k in v["SameFun_C04"][:5]:
        viol.append(("SameFun_C04", [recs[v["_oa"][k - 1] - 1], recs[v["_oa"][k] - 1]]))
    for k in v["Inject_C04"][:5]:
        viol.append(("Inject_C04", [recs[v["_od"][k - 1] - 1], recs[v["_od"][k] - 1]]))
    drift = len(v["Drift_Gate"])
    if drift:
        ctx.notes.append("model_drift: %d completion orders the pool model calls reachable could not be forced in the real pool" % drift)
    # 4. binding self-test: a corrupted digest must be rejected
    badset = set(v["Determ_C04"]) | {v["_oa"][k - 1] for k in v["SameFun_C04"]} | {v["_oa"][k] for k in v["SameFun_C04"]} | {v["_od"][k - 1] for k in v["Inject_C04"]} | {v["_od"][k] for k in v["Inject_C04"]}
    st = selftest(ctx, [r for i, r in enumerate(recs) if (i + 1) not in badset], "C04")
    # 5. confirm and report
    for rel, rs in viol:
        confirm_and_report(ctx, driver, rel, rs)
    digs = set()
    for r in recs:
        for o in r["outs"]:
            if o["outcome"] == "digest":
                digs.add((r["root"], o["digest"]))
    sample = [{k: r[k] for k in ("files", "list", "outs", "cfg")} for r in rnd.sample(recs, 2)]
    sample += [{k: r[k] for k in ("list", "order", "feasible", "outs", "cfg")} for r in recs if r["gated"]][:2]
    vlib.write_evidence(ctx, "model_checking", {
        "states": mc.distinct, "transitions": mc.generated,
        "traces_validated_against_impl": len(recs),
        "samples": sample,
        "evaluations": nexec(recs),
        "distinct_nontrivial": v["nAbs"],
        "rule": "records = real Hash executions over every (file-system assignment, list) of the universe incl. every permutation/"
                "duplicate pattern up to the length bound, re-run under taskset/GOMAXPROCS settings, plus every completion order "
                "reachable in the HashPool model forced through the worker.send gate; distinct_nontrivial = distinct (root, bag of "
                "(path, content)) collections among them as computed by TLC",
        "model": {"module": "HashPool", "maxlen": maxlen, "cpus": [1, 2, 3], "distinct_states": mc.distinct,
                  "liveness_checked": tier != "quick", "terminal_orders": len(orders),
                  "pinned_variant_refuted": nonvac},
        "judge": {"module": "HashJudge", "relations": ["Determ_C04", "SameFun_C04", "Inject_C04"],
                  "distinct_digests": len(digs), "distinct_collections": v["nAbs"], "gated_replays": sum(len(x) for x in gated.values()),
                  "gated_infeasible": drift},
        "selftest_corrupted_record_rejected": st,
        "race_detector": tier != "quick",
        "exhaustive": True,
    }, assumptions=["SHA-256 collision resistance", "runtime.NumCPU follows the taskset affinity mask",
                    "the Go race detector reports the races that occur in the driven executions (thorough tier)"])


def selftest(ctx, recs, which):
    """Corrupt one recorded field; TLC must reject the corrupted log (binding self-test)."""
    import copy
    good = [r for r in recs if r["outcome"] == "ok" and r["outs"] and r["outs"][0]["outcome"] == "digest" and len(r["list"]) >= 1
            and any(kind_of(r, p) == "reg" for p in r["list"])]
    if len(good) < 2:
        return None
    a = copy.deepcopy(good[0])
    b = copy.deepcopy(good[0])
    if which == "C04":
        b["outs"][0]["digest"] = "0" * 64          # same collection, different digest
        v = judge(ctx, [a, b])
        ok = bool(v["SameFun_C04"])
        c = copy.deepcopy(good[0])
        d = None
        for r in good[1:]:
            if abs_key(r) != abs_key(c) and r["root"] == c["root"]:
                d = copy.deepcopy(r)
                break
        if d is not None:
            d["outs"][0]["digest"] = c["outs"][0]["digest"]   # different collection, same digest
            v2 = judge(ctx, [c, d])
            ok = ok and bool(v2["Inject_C04"])
    else:
        b["leak"] = 1
        c = copy.deepcopy(good[0])
        c["outcome"] = "crash"
        v = judge(ctx, [a, b, c])
        ok = set(v["Clean_C18"]) == {2, 3}
    if not ok:
        raise Machinery("binding self-test failed: a corrupted record was accepted by HashJudge")
    return True


def bad_kinds(rec):
    ks = set()
    for p in rec["list"]:
        if p in rec.get("vanish", []):
            ks.add("vanish")
        else:
            for f in rec["files"]:
                if f["p"] == p and f["k"] in ("absent", "dangling", "eio"):
                    ks.add(f["k"])
    return sorted(ks)


def confirm_and_report(ctx, driver, rel, rs):
    """Re-execute the offending scenario(s) from scratch and re-judge before reporting."""
    root = os.path.join(ctx.scratch, "confirm%d" % random.getrandbits(30), "r")
    scen = []
    for k, r in enumerate(rs):
        scen.append({"id": k + 1, "files": r["files"], "list": r["list"], "vanish": r.get("vanish", []), "churn": r.get("churn", []), "gated": r.get("gated", False),
                     "order": r.get("order", []), "reps": 5, "trace": False, "spell": r.get("spell", "")})
    ts, env = rs[0].get("taskset"), rs[0].get("env")          # same CPU / GOMAXPROCS setting as the original observation
    again = join(scen, drive(ctx, driver, root, scen, taskset=ts, env=env), 0, "confirm", ts, env)
    v = judge(ctx, again)
    still = v[rel]
    if not still:
        # not reproduced from scratch: try once more with more repetitions (schedule dependent?)
        for s in scen:
            s["reps"] = 200
        again = join(scen, drive(ctx, driver, root, scen, taskset=ts, env=env), 0, "confirm", ts, env)
        v = judge(ctx, again)
        still = v[rel]
    if not still:
        ctx.notes.append("unreproduced %s counterexample (not reported): list=%s" % (rel, rs[0]["list"]))
        ctx.unreproduced = getattr(ctx, "unreproduced", 0) + 1
        return
    r0 = again[0]
    r0 = again[still[0] - 1] if rel in ("Clean_C18", "Determ_C04") else again[0]
    sig = "%s:%s:%s" % (rel, r0["outcome"] if r0["outcome"] != "ok" else "/".join(sorted({o["outcome"] for o in r0["outs"]})),
                        ",".join(bad_kinds(r0)) or "clean")
    what = "%s fails: list=%s%s outcome=%s outs=%s %s" % (rel, r0["list"], "".join(" | %s spelled %s" % (r["list"], r.get("spell") or "abs") for r in again[1:2]),
                                                        r0["outcome"], r0["outs"][:2], r0.get("detail", "")[:200])
    vlib.report(ctx, sig, what, {"property": ctx.pid, "family": "hash", "relation": rel, "taskset": ts, "env": env,
                                 "scenarios": scen, "observed": again})


# ------------------------------------------------------------------ C18

def c18_scenarios(tier, seed):
    rnd = random.Random(seed)
    ncpu = vlib.NCPU
    reps = 20 if tier == "quick" else 300
    scen = []
    sid = [0]

    def add(files, lst, vanish=(), reps_=None, trace=False):
        sid[0] += 1
        scen.append({"id": sid[0], "files": files, "list": lst, "vanish": list(vanish), "reps": reps_ or reps, "trace": trace})

    base = [{"p": "f%d" % i, "k": "reg", "c": "c%d" % (i % 3)} for i in range(6)] + [
        {"p": "d", "k": "dir", "c": ""}, {"p": "m", "k": "absent", "c": ""}, {"p": "l", "k": "dangling", "c": ""},
        {"p": "v", "k": "reg", "c": "gone"}, {"p": "m2", "k": "absent", "c": ""},
        # a regular file (by stat) that can be opened but not read: the read fails with EIO ("cannot be ... read yields an error")
        {"p": "io", "k": "eio", "c": ""}] + SPECIALS
    good = ["f%d" % i for i in range(6)]
    # sizes around the worker-count boundary, with duplicates
    for n in sorted({0, 1, 2, ncpu - 1, ncpu, ncpu + 1, 2 * ncpu + 1, 4 * ncpu}):
        if n < 0:
            continue
        add(base, [good[i % 6] for i in range(n)], trace=True)
        add(base, [good[i % 6] for i in range(n)] + ["d"])
    # only directories / duplicates of one file
    add(base, ["d"])
    add(base, ["d", "d", "d"])
    add(base, ["f0"] * 5)
    # one bad entry at every position of lists of size 1..6
    maxn = 6
    for n in range(1, maxn + 1):
        for pos in range(n):
            for bad in ("m", "l", "v", "io"):
                lst = [good[i % 6] for i in range(n)]
                lst[pos] = bad
                add(base, lst, vanish=["v"] if bad == "v" else [], trace=(n <= 3))
    # two bad entries, bad next to a directory, all bad
    for n in (2, 3, 4, 6):
        for a, b in itertools.combinations(range(n), 2):
            lst = [good[i % 6] for i in range(n)]
            lst[a], lst[b] = "m", rnd.choice(["m2", "l", "v"])
            add(base, lst, vanish=["v"])
    # entries that are neither regular files nor directories (a pipe nobody writes to, a device, a link to a directory)
    for sp in ("q", "n", "ld"):
        add(base, [sp])
        add(base, ["f0", sp, "f1"])
        add(base, [sp] * (ncpu + 2) + ["f0"])
        add(base, [sp, "m"])
    add(base, ["io"])
    add(base, ["io"] * (ncpu + 2) + ["f0"])
    add(base, ["f0", "io", "d", "f1", "io"])
    add(base, ["d", "m"])
    add(base, ["m", "d", "f0"])
    add(base, ["m", "m", "m", "m"])
    add(base, ["l"] * (ncpu + 1))
    # files that vanish and reappear at arbitrary moments (between open, stat and read) while the pool is running
    for n in (1, 3, 8, ncpu + 3):
        lst = [good[i % 6] for i in range(n)]
        sid[0] += 1
        scen.append({"id": sid[0], "files": base, "list": lst, "vanish": [], "churn": sorted(set(lst)), "reps": 60 if tier == "quick" else 250, "trace": False})
    big = [{"p": "big/f%05d" % i, "k": "reg", "c": "%d" % (i % 7)} for i in range(10000)]
    bigscen = [{"id": 900001, "files": big, "list": [f["p"] for f in big], "reps": 2 if tier == "quick" else 5},
               {"id": 900002, "files": big + [{"p": "m", "k": "absent", "c": ""}],
                "list": [f["p"] for f in big[:5000]] + ["m"] + [f["p"] for f in big[5000:]], "reps": 2}]
    return scen, bigscen


def run_c18(ctx):
    tier = ctx.tier
    driver = vlib.build_driver(ctx, race=True)
    maxlen = 3 if tier == "quick" else 4
    mc, _ = run_mc(ctx, maxlen, [1, 2, 3], bad=True, liveness=True, emit=False)
    nonvac = vacuity_probe(ctx)
    if not nonvac:
        raise Machinery("vacuity probe: the pinned HashPool variant was not refuted")
    log("HashPool MC (safety+liveness, bad entries): %d distinct states" % mc.distinct)
    scen, bigscen = c18_scenarios(tier, ctx.seed)
    cfgs = [(None, None), ("0", None), ("0-1", None), ("0-3", None), (None, "1"), (None, "2"), (None, "4")]
    recs = []

    def job(k):
        cpus, gmp = cfgs[k]
        root = os.path.join(ctx.scratch, "k%d" % k, "r")
        env = {"GOMAXPROCS": gmp} if gmp else None
        sc = [dict(s, trace=(len(s["list"]) <= 5)) for s in scen]
        out = join(sc, drive(ctx, driver, root, sc, taskset=cpus, env=env), k, "taskset=%s gomaxprocs=%s" % (cpus, gmp), cpus, env)
        if k in (0, 2):
            out += join(bigscen, drive(ctx, driver, root, bigscen, taskset=cpus, env=env, ), k, "big taskset=%s" % cpus, cpus, env)
        return out

    with ThreadPoolExecutor(max_workers=len(cfgs)) as ex:
        for out in ex.map(job, range(len(cfgs))):
            recs += out
    log("C18: %d real records" % len(recs))
    v = judge(ctx, recs)
    log("judged")
    st = selftest(ctx, [r for i, r in enumerate(recs) if (i + 1) not in set(v["Clean_C18"])], "C18")
    log("selftest done")
    # recorded hook traces against the pool model (causal order only): drift, never a verdict
    tv = validate_traces(ctx, [r for r in recs if r.get("trace")])
    seen = set()
    for i in v["Clean_C18"]:
        r = recs[i - 1]
        key = (r["outcome"], tuple(bad_kinds(r)), tuple(sorted({o["outcome"] for o in r["outs"]})), r["leak"] > 0)
        if key in seen:
            continue
        seen.add(key)
        confirm_and_report(ctx, driver, "Clean_C18", [r])
    rnd = random.Random(ctx.seed)
    sample = [{k: r.get(k) for k in ("list", "vanish", "outs", "outcome", "leak", "cfg", "workers")} for r in rnd.sample(recs, 3) if len(r["list"]) < 50]
    shapes = {(len(r["list"]), tuple(bad_kinds(r)), tuple(i for i, p in enumerate(r["list"]) if kind_of(r, p) == "bad"), r["cfg"]) for r in recs}
    vlib.write_evidence(ctx, "model_checking", {
        "states": mc.distinct, "transitions": mc.generated,
        "traces_validated_against_impl": len(recs),
        "samples": sample or [{"list": recs[0]["list"], "outs": recs[0]["outs"]}],
        "evaluations": nexec(recs),
        "distinct_nontrivial": len(shapes),
        "rule": "records = real Hash executions (each repeated %d times under the race detector) over list sizes around the "
                "worker-count boundary up to 10^4, one missing/dangling/vanishing entry at every position of lists <= 6, pairs of "
                "bad entries, under 7 taskset/GOMAXPROCS settings; distinct_nontrivial = distinct (length, bad kinds, bad positions, "
                "cpu setting) shapes" % scen[0]["reps"],
        "model": {"module": "HashPool", "maxlen": maxlen, "cpus": [1, 2, 3], "distinct_states": mc.distinct,
                  "invariants": ["NeverCrashes", "ErrorIffBad", "NoSendOnClosed", "CloseAfterExit", "NoLeak", "NoDeadlock"],
                  "liveness": ["Returns", "Quiesces"], "pinned_variant_refuted": nonvac},
        "judge": {"module": "HashJudge", "relation": "Clean_C18", "records_with_bad_entry": v["nBad"]},
        "hook_traces": tv,
        "selftest_corrupted_record_rejected": st,
        "race_detector": True,
        "exhaustive": False,
    }, assumptions=["the Go race detector reports the races that occur in the driven executions",
                    "a vanishing file is modelled by removing it after the worker received it and before it opens it",
                    "goroutine accounting uses runtime.NumGoroutine with a settle loop of up to ~2 s"])


def validate_traces(ctx, recs):
    """Recorded hook traces are checked by TLC against HashPoolTrace (per-goroutine program order and the causal
    order of channel operations).  A rejection is model drift."""
    if not recs or not os.path.exists(os.path.join(vlib.SPEC, "HashPoolTrace.tla")):
        return {"validated": 0}
    import fam_hash_trace
    return fam_hash_trace.validate(ctx, recs)


def replay(ctx, path):
    rp = json.load(open(path))
    driver = vlib.build_driver(ctx, race=True)
    root = os.path.join(ctx.scratch, "replay", "r")
    scen = rp["scenarios"]
    again = join(scen, drive(ctx, driver, root, scen, taskset=rp.get("taskset"), env=rp.get("env")), 0, "replay", rp.get("taskset"), rp.get("env"))
    v = judge(ctx, again)
    log("observed: %s" % [(r["list"][:6], r["outcome"], r["outs"][:2], r["leak"]) for r in again])
    if v[rp["relation"]]:
        print("VIOLATION property=%s replay=%s" % (ctx.pid, path), flush=True)
        ctx.violations.append({"replay": path})
