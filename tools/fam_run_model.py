"""Protocol model SpokRun.tla: exhaustive check against the property clauses, vacuity probe with the pinned variant,
and spec->code replay of TLC -simulate behaviours (predicted observations compared with the real ones: drift)."""
import json
import os
import random
import subprocess

import vlib
from vlib import Machinery, log
import fam_run

ALL = "Inv_C01 Inv_SkipRan Inv_C02 Inv_C02n Inv_C14a Inv_C14b Inv_C09b Inv_C10"


def cfg(protocol, crashes, maxhist, invs, view=True):
    return ("SPECIFICATION Spec\nCONSTANTS Protocol = \"%s\" Crashes = %s MaxHist = %d\n%sINVARIANTS %s\nCHECK_DEADLOCK FALSE\n"
            % (protocol, "TRUE" if crashes else "FALSE", maxhist, "VIEW View\n" if view else "", invs))


def pfile(ctx, prog):
    d = ctx.sub("model-" + prog["name"])
    p = os.path.join(d, "program.json")
    json.dump(prog, open(p, "w"))
    return d, p


def check(ctx, progs):
    pid = ctx.pid
    quick = ctx.tier == "quick"
    out = {"module": "SpokRun", "protocol": "wal", "programs": []}
    crashes = pid == "C10"
    # the protocol model is checked exhaustively on the programs whose model state space stays in the millions
    sel = [p for p in progs if p["name"] in ("P1", "P2", "Q1", "Q3")][:2] if quick else [p for p in progs if p["name"] in ("P1", "P2", "P4", "P6", "P8", "Q1", "Q2", "Q3")]
    tot_d = tot_g = 0
    for prog in sel:
        d, pj = pfile(ctx, prog)
        r = vlib.tlc(ctx, "SpokRun", cfg("wal", crashes, 0, "TypeOK CacheSound CacheComplete " + ALL),
                     files=[("program.json", pj)], workers=8, timeout=900 if quick else 2400, heap="10g")
        if r.error or r.violated:
            raise Machinery("protocol model SpokRun(wal) fails on %s: %s %s" % (prog["name"], r.violated, (r.error or "")[:1500]))
        out["programs"].append({"name": prog["name"], "distinct": r.distinct, "generated": r.generated, "depth": r.depth, "crashes": crashes})
        tot_d += r.distinct
        tot_g += r.generated
        log("SpokRun(wal) %s: %d distinct states, all invariants hold" % (prog["name"], r.distinct))
    out["distinct_states"] = tot_d
    out["generated_states"] = tot_g
    # vacuity: the pinned variant (the code as first read) must be refuted for this property's clause
    inv = {"C01": "Inv_C01", "C02": "Inv_C02", "C14": "Inv_C14b", "C10": "Inv_C10", "C09": "Inv_C02"}[pid]
    d, pj = pfile(ctx, progs[0])
    r = vlib.tlc(ctx, "SpokRun", cfg("pinned", crashes, 0, inv), files=[("program.json", pj)], workers=4, timeout=600)
    out["pinned_variant_refuted"] = (r.violated == inv)
    if r.violated != inv:
        raise Machinery("vacuity probe: pinned protocol not refuted for %s (%s)" % (inv, r.violated or r.error))
    if crashes:
        # why the digest is forgotten BEFORE the commands start: the simpler "each" design is refuted by a kill between exec and write
        r = vlib.tlc(ctx, "SpokRun", cfg("each", True, 0, "Inv_C10"), files=[("program.json", pj)], workers=4, timeout=600)
        out["each_variant_refuted_under_kills"] = (r.violated == "Inv_C10")
    # spec -> code: simulate the model, replay the environment actions into the real code, compare observations
    out["replay"] = simulate_replay(ctx, sel, 150 if quick else 1500, 8 if quick else 12)
    return out


def simulate_replay(ctx, progs, num, maxhist):
    driver = vlib.build_driver(ctx)
    invs = fam_run.INVS[ctx.pid]
    total = mism = nhist = mstates = 0
    viol = None
    for k, prog in enumerate(progs):
        d, pj = pfile(ctx, prog)
        r = vlib.tlc(ctx, "SpokRun", cfg("wal", False, maxhist, "EmitHist", view=False), files=[("program.json", pj)], workers=1,
                     simulate="num=%d" % num, depth=40 * maxhist, seed=ctx.seed * 1000 + k, timeout=600, dump_trace=False)
        if r.error:
            raise Machinery("SpokRun -simulate failed: %s" % r.error[:1500])
        hists = []
        seen = set()
        for l in r.out.splitlines():
            if l.startswith('<<"HIST"'):
                j = l[l.index(',') + 1:].strip()
                if j.endswith(">>"):
                    j = j[:-2].strip()
                if j in seen:
                    continue
                seen.add(j)
                hists.append(json.loads(json.loads(j)))
        if not hists:
            raise Machinery("SpokRun -simulate produced no histories")
        acts = []
        for h in hists:
            a = []
            for e in h:
                if e["act"] == "invoke":
                    a.append({"act": "invoke", "req": e["req"], "force": e["force"], "failing": e["failing"], "crash": {"kind": "", "k": 0},
                              "want": json.dumps([e["reports"], e["ran"], e["outcome"], e["errcls"]], separators=(",", ":"))})
                elif e["act"] == "edit":
                    a.append({"act": "edit", "f": e["f"], "c": e["c"]})
                else:
                    a.append({"act": e["act"]})
            acts.append(a)
        ap = os.path.join(d, "hists.json")
        json.dump(acts, open(ap, "w"))
        p = subprocess.run([driver, "run-replay", "--batch", "--root", os.path.join(d, "proj"), "--program", pj, "--actions", ap,
                            "--out", os.path.join(d, "graph.ndjson")], capture_output=True, text=True)
        if p.returncode != 0:
            raise Machinery("run-replay --batch failed: %s" % p.stderr[-2000:])
        g = vlib.read_ndjson(os.path.join(d, "graph.ndjson"))
        # trace validation: is every real history a behaviour of the protocol model?
        real = []
        for e0 in g[0]["out"]:
            evs, n = [], g[e0["dst"]]
            while n["out"]:
                e = n["out"][0]
                evs.append({k: e[k] for k in ("act", "f", "c", "req", "force", "failing", "reports", "ran", "outcome", "errcls")})
                n = g[e["dst"]]
            real.append(evs)
        hp = os.path.join(d, "real_hists.json")
        json.dump(real, open(hp, "w"))
        tv = vlib.tlc(ctx, "SpokRunModelTrace", "SPECIFICATION MTSpec\nCONSTANTS Protocol = \"wal\" Crashes = FALSE MaxHist = 100000\n"
                      "INVARIANTS Accepted\nCHECK_DEADLOCK FALSE\n", files=[("program.json", pj), ("hists.json", hp)], workers=4,
                      timeout=900, dump_trace=False)
        if tv.error:
            raise Machinery("SpokRunModelTrace failed: %s" % tv.error[:1500])
        acc = set()
        for l in tv.out.splitlines():
            if l.startswith('<<"ACC"'):
                acc.add(int(l.split(",")[1].strip(" >")))
        total += sum(1 for evs in real for e in evs if e["act"] == "invoke")
        for i, evs in enumerate(real):
            if (i + 1) not in acc:
                mism += 1
                if mism <= 3:
                    ctx.notes.append("model_drift (%s): real history not a behaviour of SpokRun(wal): %s" % (prog["name"], fam_run.human(evs)))
        mstates += tv.distinct
        nhist += len(hists)
        # the real behaviours of the replay are judged like any other recorded behaviour
        jr = fam_run.judge(ctx, d, invs, workers=2, timeout=600)
        if jr.violated and viol is None:
            edges = fam_run.actions_from_trace(g, jr.trace)
            edges = [e for e in edges if e["act"] != "reset"]
            viol = (prog, jr.violated, edges)
    if viol:
        prog, inv, edges = viol
        acts = fam_run.to_replay_actions(edges)
        r2, g2 = fam_run.replay_history(ctx, driver, prog, acts, invs)
        if r2.violated:
            edges2 = [n["out"][0] for n in g2 if n["out"]]
            sig = "%s:%s:%s" % (r2.violated, prog["name"], json.dumps([{k: a[k] for k in a if k != "want"} for a in acts], sort_keys=True))
            vlib.report(ctx, sig, "%s violated in %s by the real history (from a model-generated scenario): %s" % (r2.violated, prog["name"], fam_run.human(edges2)),
                        {"property": ctx.pid, "family": "run", "invariant": r2.violated, "program": prog, "actions": acts,
                         "observed": edges2, "history": fam_run.human(edges2)})
        else:
            ctx.unreproduced = getattr(ctx, "unreproduced", 0) + 1
    log("spec->code replay: %d model histories replayed (%d real invocations), %d histories rejected by the model (drift)" % (nhist, total, mism))
    return {"histories": nhist, "real_invocations_validated": total, "histories_rejected_model_drift": mism, "trace_validation_states": mstates}
