module verifharness

go 1.23

require github.com/FollowTheProcess/spok v0.0.0

replace github.com/FollowTheProcess/spok => /repo
