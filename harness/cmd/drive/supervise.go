package main

import (
	"bufio"
	"bytes"
	"encoding/json"
	"fmt"
	"io"
	"os"
	"os/exec"
	"strings"
	"sync"
	"syscall"
	"time"
)

// childLoop is the body of a supervised child: one scenario per stdin line, one result per stdout line.
func childLoop(handle func(line []byte) any) error {
	in := bufio.NewReaderSize(os.Stdin, 1<<20)
	out := bufio.NewWriterSize(os.Stdout, 1<<20)
	for {
		line, err := in.ReadBytes('\n')
		if len(bytes.TrimSpace(line)) > 0 {
			res := handle(bytes.TrimSpace(line))
			b, jerr := json.Marshal(res)
			if jerr != nil {
				return jerr
			}
			out.Write(b)
			out.WriteByte('\n')
			if ferr := out.Flush(); ferr != nil {
				return ferr
			}
		}
		if err != nil {
			if err == io.EOF {
				return nil
			}
			return err
		}
	}
}

type child struct {
	cmd    *exec.Cmd
	stdin  io.WriteCloser
	lines  chan []byte
	stderr *tailBuf
	done   chan struct{}
}

type tailBuf struct {
	mu sync.Mutex
	b  []byte
}

func (t *tailBuf) Write(p []byte) (int, error) {
	t.mu.Lock()
	defer t.mu.Unlock()
	t.b = append(t.b, p...)
	if len(t.b) > 16384 {
		t.b = t.b[len(t.b)-16384:]
	}
	return len(p), nil
}

func (t *tailBuf) String() string {
	t.mu.Lock()
	defer t.mu.Unlock()
	return string(t.b)
}

func startChild(args []string, env []string, dir string) (*child, error) {
	self, err := os.Executable()
	if err != nil {
		return nil, err
	}
	c := &child{lines: make(chan []byte, 4), stderr: &tailBuf{}, done: make(chan struct{})}
	c.cmd = exec.Command(self, args...)
	c.cmd.Env = append(os.Environ(), "DRIVE_CHILD=1")
	c.cmd.Env = append(c.cmd.Env, env...)
	c.cmd.Dir = dir
	c.cmd.Stderr = c.stderr
	c.cmd.SysProcAttr = &syscall.SysProcAttr{Setpgid: true}
	c.stdin, err = c.cmd.StdinPipe()
	if err != nil {
		return nil, err
	}
	so, err := c.cmd.StdoutPipe()
	if err != nil {
		return nil, err
	}
	if err := c.cmd.Start(); err != nil {
		return nil, err
	}
	go func() {
		r := bufio.NewReaderSize(so, 1<<20)
		for {
			line, err := r.ReadBytes('\n')
			if len(line) > 0 && err == nil {
				c.lines <- bytes.TrimSpace(line)
			}
			if err != nil {
				break
			}
		}
		c.cmd.Wait()
		close(c.done)
	}()
	return c, nil
}

func (c *child) kill() {
	if c.cmd.Process != nil {
		syscall.Kill(-c.cmd.Process.Pid, syscall.SIGKILL)
		c.cmd.Process.Kill()
	}
	<-c.done
}

func (c *child) exitInfo() string {
	ps := c.cmd.ProcessState
	if ps == nil {
		return "unknown"
	}
	if ws, ok := ps.Sys().(syscall.WaitStatus); ok {
		if ws.Signaled() {
			return "signal:" + ws.Signal().String()
		}
		return fmt.Sprintf("exit:%d", ws.ExitStatus())
	}
	return ps.String()
}

// supervise feeds scenarios one at a time to a child `drive <args>`; a child that dies or does not answer
// within perTimeout yields a synthetic observation (outcome crash / hang) and is replaced.
func supervise(args, env []string, dir string, scen [][]byte, perTimeout time.Duration, emit func(i int, line []byte)) error {
	var c *child
	var err error
	defer func() {
		if c != nil {
			c.stdin.Close()
			select {
			case <-c.done:
			case <-time.After(5 * time.Second):
				c.kill()
			}
		}
	}()
	for i, s := range scen {
		if c == nil {
			c, err = startChild(args, env, dir)
			if err != nil {
				return err
			}
		}
		if _, werr := c.stdin.Write(append(append([]byte{}, s...), '\n')); werr != nil {
			// child already gone
			<-c.done
			emit(i, synth("crash", c))
			c = nil
			continue
		}
		select {
		case line := <-c.lines:
			emit(i, line)
		case <-c.done:
			// drain a last line if any
			select {
			case line := <-c.lines:
				emit(i, line)
			default:
				emit(i, synth("crash", c))
			}
			c = nil
		case <-time.After(perTimeout):
			c.kill()
			emit(i, synth("hang", c))
			c = nil
		}
	}
	return nil
}

func synth(kind string, c *child) []byte {
	se := c.stderr.String()
	oc := kind
	if strings.Contains(se, "WARNING: DATA RACE") {
		oc = "race"
	}
	b, _ := json.Marshal(map[string]any{"outcome": oc, "exit": c.exitInfo(), "stderr": tail(se, 1500), "synthetic": true})
	return b
}

func tail(s string, n int) string {
	if len(s) > n {
		return s[len(s)-n:]
	}
	return s
}

func readLines(path string) ([][]byte, error) {
	var r io.Reader = os.Stdin
	if path != "" && path != "-" {
		f, err := os.Open(path)
		if err != nil {
			return nil, err
		}
		defer f.Close()
		r = f
	}
	var out [][]byte
	br := bufio.NewReaderSize(r, 1<<20)
	for {
		line, err := br.ReadBytes('\n')
		if t := bytes.TrimSpace(line); len(t) > 0 {
			out = append(out, append([]byte{}, t...))
		}
		if err != nil {
			break
		}
	}
	return out, nil
}

func isChild() bool { return os.Getenv("DRIVE_CHILD") == "1" }
