package main

import (
	"encoding/json"
	"flag"
	"fmt"
	"os"
	"path/filepath"
	"strings"
	"time"

	"github.com/FollowTheProcess/spok/file"
	"github.com/FollowTheProcess/spok/iostream"
	"github.com/FollowTheProcess/spok/parser"
)

// graphScen: one dependency-graph configuration and one request list (C03).
type graphTask struct {
	Name  string   `json:"name"`
	Deps  []string `json:"deps"`  // task dependencies (may name undefined tasks, itself, ...)
	File  bool     `json:"file"`  // also depends on the file <name>.txt (so that a second run skips it)
	Count int      `json:"count"` // how many times it is defined in the spokfile (0, 1 or 2)
}

type graphScen struct {
	ID      int         `json:"id"`
	Tasks   []graphTask `json:"tasks"`
	Req     []string    `json:"req"`
	Failing []string    `json:"failing"`
	Reps    int         `json:"reps"`
	Second  bool        `json:"second"` // run a second time on the warm cache (skips appear)
	Vars    []string    `json:"vars"`   // global variables declared above the tasks (their names may coincide with task names)
}

type graphOut struct {
	Kind     string   `json:"kind"` // ok | error | panic
	Ran      []string `json:"ran"`  // tasks in the order their first command started (ground truth: the runner)
	NRan     []int    `json:"nran"` // commands executed per entry of Ran
	Reported []string `json:"reported"`
	Skipped  []string `json:"skipped"`
	Err      string   `json:"err"`
	Run      int      `json:"run"` // 1 = cold cache, 2 = second run
	N        int      `json:"n"`
}

type graphRec struct {
	ID      int        `json:"id"`
	Outs    []graphOut `json:"outs"`
	Outcome string     `json:"outcome"`
}

func init() { register("graph", graphMain) }

func graphMain(args []string) error {
	fl := flag.NewFlagSet("graph", flag.ExitOnError)
	root := fl.String("root", "", "sandbox root")
	in := fl.String("in", "-", "scenarios")
	out := fl.String("out", "-", "records")
	fl.Parse(args)
	if isChild() {
		os.RemoveAll(*root)
		if err := os.MkdirAll(*root, 0o755); err != nil {
			return err
		}
		return childLoop(func(line []byte) any { return graphHandle(*root, line) })
	}
	scen, err := readLines(*in)
	if err != nil {
		return err
	}
	w := os.Stdout
	if *out != "-" {
		f, err := os.Create(*out)
		if err != nil {
			return err
		}
		defer f.Close()
		w = f
	}
	return supervise([]string{"graph", "--root", *root}, nil, "", scen, 20*time.Second, func(i int, line []byte) {
		var m map[string]any
		if json.Unmarshal(line, &m) == nil {
			if _, ok := m["id"]; !ok {
				var s graphScen
				json.Unmarshal(scen[i], &s)
				m["id"] = s.ID
				m["outs"] = []any{}
				line, _ = json.Marshal(m)
			}
		}
		w.Write(line)
		w.Write([]byte{'\n'})
	})
}

func graphSpokfile(s *graphScen) string {
	var b strings.Builder
	for _, v := range s.Vars {
		fmt.Fprintf(&b, "%s := \"%s.out\"\n", v, v)
	}
	for _, t := range s.Tasks {
		for c := 0; c < t.Count; c++ {
			var args []string
			if t.File {
				args = append(args, `"`+t.Name+`.txt"`)
			}
			args = append(args, t.Deps...)
			fmt.Fprintf(&b, "task %s(%s) {\n    echo %s1\n    echo %s2\n}\n\n", t.Name, strings.Join(args, ", "), t.Name, t.Name)
		}
	}
	return b.String()
}

func graphHandle(root string, line []byte) any {
	var s graphScen
	if err := json.Unmarshal(line, &s); err != nil {
		return map[string]any{"outcome": "driver-error", "err": err.Error()}
	}
	if s.Reps <= 0 {
		s.Reps = 1
	}
	text := graphSpokfile(&s)
	for _, t := range s.Tasks {
		if t.File {
			if err := os.WriteFile(filepath.Join(root, t.Name+".txt"), []byte("x"), 0o644); err != nil {
				return map[string]any{"id": s.ID, "outcome": "driver-error", "err": err.Error()}
			}
		}
	}
	rec := graphRec{ID: s.ID, Outcome: "ok"}
	counts := map[string]int{}
	var order []graphOut
	one := func(run int) graphOut {
		o := graphOut{Run: run, Ran: []string{}, NRan: []int{}, Reported: []string{}, Skipped: []string{}}
		rr := &recRunner{failing: map[string]bool{}}
		for _, f := range s.Failing {
			rr.failing[f] = true
		}
		func() {
			defer func() {
				if p := recover(); p != nil {
					o.Kind, o.Err = "panic", fmt.Sprint(p)
				}
			}()
			tree, err := parser.New(text).Parse()
			if err != nil {
				o.Kind, o.Err = "error", "parse: "+err.Error()
				return
			}
			sf, err := file.New(tree, root, nopLogger{})
			if err != nil {
				o.Kind, o.Err = "error", err.Error()
				return
			}
			res, err := sf.Run(iostream.Null(), rr, false, s.Req...)
			if err != nil {
				o.Kind, o.Err = "error", err.Error()
				return
			}
			o.Kind = "ok"
			for _, r := range res {
				o.Reported = append(o.Reported, r.Task)
				if r.Skipped {
					o.Skipped = append(o.Skipped, r.Task)
				}
			}
		}()
		for _, l := range rr.log {
			n := len(o.Ran)
			if n > 0 && o.Ran[n-1] == l.task {
				o.NRan[n-1]++
			} else {
				o.Ran = append(o.Ran, l.task)
				o.NRan = append(o.NRan, 1)
			}
		}
		return o
	}
	for rep := 0; rep < s.Reps; rep++ {
		os.RemoveAll(filepath.Join(root, ".spok"))
		runs := 1
		if s.Second {
			runs = 2
		}
		for run := 1; run <= runs; run++ {
			o := one(run)
			e := o.Err
			o.Err = ""
			b, _ := json.Marshal(o)
			k := string(b)
			if _, ok := counts[k]; !ok {
				o.Err = e
				order = append(order, o)
			}
			counts[k]++
		}
	}
	for _, o := range order {
		e := o.Err
		o.Err = ""
		b, _ := json.Marshal(o)
		o.Err = e
		o.N = counts[string(b)]
		rec.Outs = append(rec.Outs, o)
	}
	return rec
}
