package main

import (
	"encoding/json"
	"flag"
	"fmt"
	"os"
	"path/filepath"
	"sort"
	"strings"
	"time"

	"github.com/FollowTheProcess/spok/file"
	"github.com/FollowTheProcess/spok/iostream"
	"github.com/FollowTheProcess/spok/parser"
)

// globScen: one directory tree (set of regular files) and the patterns to expand in it (C05).
type globScen struct {
	ID   int      `json:"id"`
	Tree []string `json:"tree"`
	Pats []string `json:"pats"`
	// symbolic links to directories of the tree: [link path, target (relative to the link's directory)]
	Links [][2]string `json:"links"`
}

type globRec struct {
	ID      int                 `json:"id"`
	Got1    map[string][]string `json:"got1"` // pattern -> relative paths returned by the first expansion
	Got2    map[string][]string `json:"got2"` // ... by a second expansion on a fresh SpokFile
	Outcome string              `json:"outcome"`
	Err     string              `json:"err"`
}

func init() { register("glob", globMain) }

func globMain(args []string) error {
	fl := flag.NewFlagSet("glob", flag.ExitOnError)
	root := fl.String("root", "", "sandbox root")
	in := fl.String("in", "-", "scenarios")
	out := fl.String("out", "-", "records")
	fl.Parse(args)
	if isChild() {
		os.RemoveAll(*root)
		if err := os.MkdirAll(*root, 0o755); err != nil {
			return err
		}
		return childLoop(func(line []byte) any { return globHandle(*root, line) })
	}
	scen, err := readLines(*in)
	if err != nil {
		return err
	}
	w := os.Stdout
	if *out != "-" {
		f, err := os.Create(*out)
		if err != nil {
			return err
		}
		defer f.Close()
		w = f
	}
	return supervise([]string{"glob", "--root", *root}, nil, "", scen, 20*time.Second, func(i int, line []byte) {
		var m map[string]any
		if json.Unmarshal(line, &m) == nil {
			if _, ok := m["id"]; !ok {
				var s globScen
				json.Unmarshal(scen[i], &s)
				m["id"] = s.ID
				line, _ = json.Marshal(m)
			}
		}
		w.Write(line)
		w.Write([]byte{'\n'})
	})
}

func globHandle(root string, line []byte) any {
	var s globScen
	if err := json.Unmarshal(line, &s); err != nil {
		return map[string]any{"outcome": "driver-error", "err": err.Error()}
	}
	// rebuild the tree from scratch
	ents, _ := os.ReadDir(root)
	for _, e := range ents {
		os.RemoveAll(filepath.Join(root, e.Name()))
	}
	for _, p := range s.Tree {
		abs := filepath.Join(root, p)
		os.MkdirAll(filepath.Dir(abs), 0o755)
		if err := os.WriteFile(abs, []byte("x"), 0o644); err != nil {
			return map[string]any{"id": s.ID, "outcome": "driver-error", "err": err.Error()}
		}
	}
	for _, l := range s.Links {
		abs := filepath.Join(root, l[0])
		os.MkdirAll(filepath.Dir(abs), 0o755)
		if err := os.Symlink(l[1], abs); err != nil {
			return map[string]any{"id": s.ID, "outcome": "driver-error", "err": err.Error()}
		}
	}
	var b strings.Builder
	var names []string
	for i, p := range s.Pats {
		n := "t" + strings.Repeat("x", i+1)
		names = append(names, n)
		fmt.Fprintf(&b, "task %s(\"%s\") {\n    echo %s\n}\n\n", n, p, n)
	}
	text := b.String()
	rec := globRec{ID: s.ID, Outcome: "ok"}
	expand := func() (m map[string][]string, kind, emsg string) {
		defer func() {
			if p := recover(); p != nil {
				kind, emsg = "panic", fmt.Sprint(p)
			}
		}()
		tree, err := parser.New(text).Parse()
		if err != nil {
			return nil, "driver-error", "parse: " + err.Error()
		}
		sf, err := file.New(tree, root, nopLogger{})
		if err != nil {
			return nil, "error", err.Error()
		}
		rr := &recRunner{failing: map[string]bool{}}
		if _, err := sf.Run(iostream.Null(), rr, true, names...); err != nil {
			return nil, "error", err.Error()
		}
		m = map[string][]string{}
		for _, p := range s.Pats {
			got := []string{}
			for _, abs := range sf.Globs[p] {
				rel, rerr := filepath.Rel(root, abs)
				if rerr != nil {
					rel = abs
				}
				got = append(got, filepath.ToSlash(rel))
			}
			sort.Strings(got)
			m[p] = got
		}
		return m, "ok", ""
	}
	var k, e string
	rec.Got1, k, e = expand()
	if k != "ok" {
		rec.Outcome, rec.Err = k, e
		return rec
	}
	os.RemoveAll(filepath.Join(root, ".spok"))
	rec.Got2, k, e = expand()
	if k != "ok" {
		rec.Outcome, rec.Err = k, e
	}
	os.RemoveAll(filepath.Join(root, ".spok"))
	return rec
}
