package main

import (
	"bufio"
	"bytes"
	"encoding/hex"
	"encoding/json"
	"flag"
	"fmt"
	"os"
	"os/exec"
	"regexp"
	"strconv"
	"strings"
	"sync"
	"sync/atomic"
	"time"
	"unicode"
	"unicode/utf8"

	"github.com/FollowTheProcess/spok/ast"
	"github.com/FollowTheProcess/spok/lexer"
	"github.com/FollowTheProcess/spok/parser"
	"github.com/FollowTheProcess/spok/token"
)

// The syntax driver feeds byte strings to the real lexer, parser and printer and records what comes back.
// It judges nothing.  Strings travel hex-encoded so that every byte value survives JSON and TLC.

type synIn struct {
	I   int    `json:"i"`
	Hex string `json:"hex"`
}

type synTok struct {
	Ty   string `json:"ty"`
	Pos  int    `json:"pos"`
	Len  int    `json:"len"`
	Line int    `json:"line"`
	Val  []int  `json:"val"` // bytes of the token value (empty for ERROR tokens)
}

// uniform node shape: k = comment|str|ident|call|assign|task
type synNode struct {
	K  string    `json:"k"`
	T  string    `json:"t"`  // hex: comment text / task docstring with surrounding blanks trimmed
	A  string    `json:"a"`  // hex: text / name / function name
	B  string    `json:"b"`  // hex: task docstring
	Xs []synNode `json:"xs"` // call args / assign value (1) / task dependencies
	Ys []synNode `json:"ys"` // task outputs
	Cs []string  `json:"cs"` // hex: task command lines
}

type synErr struct {
	Lines  []int  `json:"lines"`  // every "Line <n>" cited in the message
	Quotes []bool `json:"quotes"` // for each cited line: does the message contain the trimmed text of that input line
	Msg    string `json:"msg"`    // hex
}

type synParse struct {
	Ok   bool      `json:"ok"`
	Tree []synNode `json:"tree"`
	Err  synErr    `json:"err"`
}

type synRec struct {
	I       int      `json:"i"`
	In      []int    `json:"in"`  // the input bytes
	WSX     []int    `json:"wsx"` // 1-based positions of bytes that belong to a NON-ASCII white-space rune (unicode.IsSpace: U+0085, U+00A0, U+2028, ...)
	Toks    []synTok `json:"toks"`
	LexEnd  string   `json:"lexend"` // EOF | ERROR | cap
	LexErr  synErr   `json:"lexerr"`
	P1      synParse `json:"p1"`
	Same    bool     `json:"same"` // a second parse of the same input gave the identical result
	Fmt     string   `json:"fmt"`  // hex of format(parse(x))
	P2      synParse `json:"p2"`   // parse(format(parse(x)))
	Fmt2    string   `json:"fmt2"`
	Outcome string   `json:"outcome"` // ok | panic | hang | crash
	Detail  string   `json:"detail"`
}

func init() { register("syntax", syntaxMain) }

var lineRe = regexp.MustCompile(`(?i)line\s+(\d+)`)

// a context line of an error message: "<n> |<tab>text"
var ctxRe = regexp.MustCompile(`(?m)^[ \t]*(\d+)[ \t]*\|[ \t]?(.*)$`)

func hx(s string) string { return hex.EncodeToString([]byte(s)) }

// wsxOf lists the (1-based) positions of the bytes of non-ASCII white space: a purely lexical fact about the input that TLC,
// working on bytes, cannot derive itself.
func wsxOf(s string) []int {
	out := []int{}
	for i := 0; i < len(s); {
		r, w := utf8.DecodeRuneInString(s[i:])
		if r >= 0x80 && !(r == utf8.RuneError && w == 1) && unicode.IsSpace(r) {
			for k := 0; k < w; k++ {
				out = append(out, i+k+1)
			}
		}
		i += w
	}
	return out
}

func bytesOf(s string) []int {
	out := make([]int, len(s))
	for i := 0; i < len(s); i++ {
		out[i] = int(s[i])
	}
	return out
}

func mkErr(input, msg string) synErr {
	e := synErr{Lines: []int{}, Quotes: []bool{}, Msg: hx(msg)}
	lines := strings.Split(input, "\n")
	for _, m := range lineRe.FindAllStringSubmatch(msg, -1) {
		n, err := strconv.Atoi(m[1])
		if err != nil {
			n = -1
		}
		e.Lines = append(e.Lines, n)
		q := false
		if n >= 1 && n <= len(lines) {
			want := strings.TrimSpace(lines[n-1])
			q = strings.Contains(msg, want)
			// where the message shows a numbered context line for n, that line's text has to be the input's line n
			for _, c := range ctxRe.FindAllStringSubmatch(msg, -1) {
				if c[1] == m[1] && strings.TrimSpace(c[2]) != want {
					q = false
				}
			}
		}
		e.Quotes = append(e.Quotes, q)
	}
	return e
}

func conv(n ast.Node) synNode {
	out := synNode{Xs: []synNode{}, Ys: []synNode{}, Cs: []string{}}
	switch v := n.(type) {
	case ast.Comment:
		out.K, out.A, out.T = "comment", hx(v.Text), hx(strings.TrimSpace(v.Text))
	case ast.String:
		out.K, out.A = "str", hx(v.Text)
	case ast.Ident:
		out.K, out.A = "ident", hx(v.Name)
	case ast.Function:
		out.K, out.A = "call", hx(v.Name.Name)
		for _, a := range v.Arguments {
			out.Xs = append(out.Xs, conv(a))
		}
	case ast.Assign:
		out.K, out.A = "assign", hx(v.Name.Name)
		if v.Value != nil {
			out.Xs = append(out.Xs, conv(v.Value))
		}
	case ast.Task:
		out.K, out.A, out.B, out.T = "task", hx(v.Name.Name), hx(v.Docstring.Text), hx(strings.TrimSpace(v.Docstring.Text))
		for _, d := range v.Dependencies {
			out.Xs = append(out.Xs, conv(d))
		}
		for _, o := range v.Outputs {
			out.Ys = append(out.Ys, conv(o))
		}
		for _, c := range v.Commands {
			out.Cs = append(out.Cs, hx(c.Command))
		}
	case ast.Command:
		out.K, out.A = "command", hx(v.Command)
	default:
		out.K = "unknown"
	}
	return out
}

func doParse(input string) (synParse, ast.Tree) {
	tree, err := parser.New(input).Parse()
	p := synParse{Tree: []synNode{}, Err: synErr{Lines: []int{}, Quotes: []bool{}}}
	if err != nil {
		p.Err = mkErr(input, err.Error())
		return p, tree
	}
	p.Ok = true
	for _, n := range tree.Nodes {
		p.Tree = append(p.Tree, conv(n))
	}
	return p, tree
}

func synOne(in synIn, mode string) synRec {
	raw, _ := hex.DecodeString(in.Hex)
	input := string(raw)
	rec := synRec{I: in.I, In: bytesOf(input), WSX: wsxOf(input), Toks: []synTok{}, Outcome: "ok",
		LexErr: synErr{Lines: []int{}, Quotes: []bool{}},
		P1:     synParse{Tree: []synNode{}, Err: synErr{Lines: []int{}, Quotes: []bool{}}},
		P2:     synParse{Tree: []synNode{}, Err: synErr{Lines: []int{}, Quotes: []bool{}}}}
	// 1. the token stream up to the first EOF / ERROR
	l := lexer.New(input)
	rec.LexEnd = "cap"
	for n := 0; n < 2*len(input)+8; n++ {
		t := l.NextToken()
		st := synTok{Ty: t.Type.String(), Pos: t.Pos, Len: len(t.Value), Line: t.Line, Val: []int{}}
		switch t.Type {
		case token.ERROR:
			st.Len = 0
			rec.LexErr = mkErr(input, t.Value)
		default:
			st.Val = bytesOf(t.Value)
		}
		switch t.Type {
		case token.EOF:
			st.Ty = "EOF"
		case token.ERROR:
			st.Ty = "ERROR"
		case token.HASH:
			st.Ty = "HASH"
		case token.LPAREN:
			st.Ty = "LPAREN"
		case token.RPAREN:
			st.Ty = "RPAREN"
		case token.LBRACE:
			st.Ty = "LBRACE"
		case token.RBRACE:
			st.Ty = "RBRACE"
		case token.COMMA:
			st.Ty = "COMMA"
		case token.TASK:
			st.Ty = "TASK"
		case token.OUTPUT:
			st.Ty = "OUTPUT"
		case token.DECLARE:
			st.Ty = "DECLARE"
		}
		rec.Toks = append(rec.Toks, st)
		if t.Type == token.EOF || t.Type == token.ERROR {
			rec.LexEnd = st.Ty
			break
		}
	}
	if mode == "lex" {
		return rec
	}
	// 2. parse, twice
	p1, tree := doParse(input)
	rec.P1 = p1
	pb, _ := doParse(input)
	a, _ := json.Marshal(p1)
	b, _ := json.Marshal(pb)
	rec.Same = bytes.Equal(a, b)
	if !p1.Ok || mode == "parse" {
		return rec
	}
	// 3. format, parse again, format again
	f := tree.String()
	rec.Fmt = hx(f)
	p2, tree2 := doParse(f)
	rec.P2 = p2
	if p2.Ok {
		rec.Fmt2 = hx(tree2.String())
	}
	return rec
}

func syntaxMain(args []string) error {
	fl := flag.NewFlagSet("syntax", flag.ExitOnError)
	in := fl.String("in", "-", "inputs ndjson: {i, hex}")
	out := fl.String("out", "-", "records ndjson")
	mode := fl.String("mode", "fmt", "lex | parse | fmt")
	procs := fl.Int("procs", 8, "parallel child processes")
	chunk := fl.Int("chunk", 20000, "inputs per child (bounds leaked lexer goroutines)")
	fl.Parse(args)
	if isChild() {
		return syntaxChild(*mode)
	}
	lines, err := readLines(*in)
	if err != nil {
		return err
	}
	results := make([][]byte, len(lines))
	type job struct{ lo, hi int }
	jobs := make(chan job, 1024)
	var wg sync.WaitGroup
	var firstErr error
	var mu sync.Mutex
	for w := 0; w < *procs; w++ {
		wg.Add(1)
		go func() {
			defer wg.Done()
			for j := range jobs {
				if e := syntaxRunChunk(lines, results, j.lo, j.hi, *mode); e != nil {
					mu.Lock()
					if firstErr == nil {
						firstErr = e
					}
					mu.Unlock()
				}
			}
		}()
	}
	for lo := 0; lo < len(lines); lo += *chunk {
		hi := lo + *chunk
		if hi > len(lines) {
			hi = len(lines)
		}
		jobs <- job{lo, hi}
	}
	close(jobs)
	wg.Wait()
	if firstErr != nil {
		return firstErr
	}
	w := os.Stdout
	if *out != "-" {
		f, err := os.Create(*out)
		if err != nil {
			return err
		}
		defer f.Close()
		w = f
	}
	bw := bufio.NewWriterSize(w, 1<<20)
	for _, r := range results {
		bw.Write(r)
		bw.WriteByte('\n')
	}
	return bw.Flush()
}

// number of inputs that killed or hung a child so far (all chunks); beyond synMaxBad the remaining inputs are recorded as not-run
var synBad atomic.Int64

const synMaxBad = 12

// syntaxRunChunk runs lines[lo:hi] through child processes; an input on which the child dies or hangs gets a synthetic record.
func syntaxRunChunk(lines, results [][]byte, lo, hi int, mode string) error {
	self, err := os.Executable()
	if err != nil {
		return err
	}
	next := lo
	for next < hi {
		if synBad.Load() >= synMaxBad {
			for i := next; i < hi; i++ {
				var in synIn
				json.Unmarshal(lines[i], &in)
				b, _ := json.Marshal(map[string]any{"i": in.I, "outcome": "not-run"})
				results[i] = b
			}
			return nil
		}
		cmd := exec.Command(self, "syntax", "--mode", mode)
		cmd.Env = append(os.Environ(), "DRIVE_CHILD=1")
		var stdin bytes.Buffer
		for i := next; i < hi; i++ {
			stdin.Write(lines[i])
			stdin.WriteByte('\n')
		}
		cmd.Stdin = &stdin
		var stderr tailBuf
		cmd.Stderr = &stderr
		so, err := cmd.StdoutPipe()
		if err != nil {
			return err
		}
		if err := cmd.Start(); err != nil {
			return err
		}
		got := next
		br := bufio.NewReaderSize(so, 1<<20)
		hang := false
		for {
			line, rerr := br.ReadBytes('\n')
			if len(bytes.TrimSpace(line)) > 0 && rerr == nil {
				t := bytes.TrimSpace(line)
				if bytes.Equal(t, []byte(`"HANG"`)) {
					hang = true
					break
				}
				results[got] = append([]byte{}, t...)
				got++
			}
			if rerr != nil {
				break
			}
		}
		cmd.Process.Kill()
		cmd.Wait()
		if got >= hi {
			return nil
		}
		// input `got` killed or hung the child
		synBad.Add(1)
		var in synIn
		json.Unmarshal(lines[got], &in)
		raw, _ := hex.DecodeString(in.Hex)
		oc := "crash"
		if hang {
			oc = "hang"
		}
		rec := synRec{I: in.I, In: bytesOf(string(raw)), WSX: []int{}, Toks: []synTok{}, Outcome: oc, Detail: tail(stderr.String(), 800),
			LexErr: synErr{Lines: []int{}, Quotes: []bool{}},
			P1:     synParse{Tree: []synNode{}, Err: synErr{Lines: []int{}, Quotes: []bool{}}},
			P2:     synParse{Tree: []synNode{}, Err: synErr{Lines: []int{}, Quotes: []bool{}}}}
		b, _ := json.Marshal(rec)
		results[got] = b
		next = got + 1
	}
	return nil
}

func syntaxChild(mode string) error {
	in := bufio.NewReaderSize(os.Stdin, 1<<20)
	out := bufio.NewWriterSize(os.Stdout, 1<<20)
	defer out.Flush()
	for {
		line, err := in.ReadBytes('\n')
		if t := bytes.TrimSpace(line); len(t) > 0 {
			var s synIn
			if jerr := json.Unmarshal(t, &s); jerr != nil {
				return jerr
			}
			done := make(chan synRec, 1)
			go func() {
				defer func() {
					if p := recover(); p != nil {
						raw, _ := hex.DecodeString(s.Hex)
						done <- synRec{I: s.I, In: bytesOf(string(raw)), WSX: []int{}, Toks: []synTok{}, Outcome: "panic", Detail: fmt.Sprint(p),
							LexErr: synErr{Lines: []int{}, Quotes: []bool{}},
							P1:     synParse{Tree: []synNode{}, Err: synErr{Lines: []int{}, Quotes: []bool{}}},
							P2:     synParse{Tree: []synNode{}, Err: synErr{Lines: []int{}, Quotes: []bool{}}}}
					}
				}()
				done <- synOne(s, mode)
			}()
			select {
			case r := <-done:
				b, _ := json.Marshal(r)
				out.Write(b)
				out.WriteByte('\n')
				out.Flush()
			case <-time.After(8 * time.Second):
				out.Flush()
				os.Stdout.Write([]byte("\"HANG\"\n"))
				os.Exit(3)
			}
		}
		if err != nil {
			return nil
		}
	}
}
