package main

import (
	"bytes"
	"encoding/json"
	"flag"
	"fmt"
	"os"
	"path/filepath"
	"runtime"
	"sort"
	"strconv"
	"sync"
	"sync/atomic"
	"syscall"
	"time"

	"github.com/FollowTheProcess/spok/hash"
	"github.com/FollowTheProcess/spok/verifhook"
)

// hashFile is one entry of the scenario's file-system universe.
type hashFile struct {
	P string `json:"p"` // path relative to the sandbox root
	K string `json:"k"` // reg | dir | absent | dangling
	C string `json:"c"` // content for reg
}

type hashScen struct {
	ID     int        `json:"id"`
	Files  []hashFile `json:"files"`
	List   []string   `json:"list"`   // relative paths handed to Hash (made absolute under root)
	Vanish []string   `json:"vanish"` // removed at the moment a worker has received them
	Churn  []string   `json:"churn"`  // removed and re-created in a tight loop by another goroutine while Hash runs
	Order  []string   `json:"order"`  // if set: completion order to force through the worker.send gate
	Gated  bool       `json:"gated"`
	Reps   int        `json:"reps"`
	Trace  bool       `json:"trace"`
	// how the paths of the list are spelled: "" = absolute and clean; rel = relative to the working directory (the root);
	// dot = absolute with a `.` and an `x/..` element; mixed = alternately absolute and relative
	Spell string `json:"spell"`
}

type hashOut struct {
	Outcome string `json:"outcome"` // digest | error | panic
	Digest  string `json:"digest"`
	Err     string `json:"err"`
	N       int    `json:"n"`
}

type hookEv struct {
	Seq  int64  `json:"seq"`
	G    int64  `json:"g"`
	Ev   string `json:"ev"`
	File string `json:"file"`
	N1   int    `json:"n1"`
	N2   int    `json:"n2"`
}

type hashRec struct {
	ID       int       `json:"id"`
	Outs     []hashOut `json:"outs"`
	Leak     int       `json:"leak"`     // goroutines still alive after the settle loop, max over reps
	Feasible bool      `json:"feasible"` // gated: the requested order could be realised
	NumCPU   int       `json:"ncpu"`
	MaxProcs int       `json:"gomaxprocs"`
	Trace    []hookEv  `json:"trace,omitempty"`
	Workers  int       `json:"workers"`
	Outcome  string    `json:"outcome"` // "ok" (child survived); synthetic records carry crash|hang|race
}

func init() { register("hash", hashMain) }

func hashMain(args []string) error {
	fs := flag.NewFlagSet("hash", flag.ExitOnError)
	root := fs.String("root", "", "sandbox root (created, exclusively owned)")
	in := fs.String("in", "-", "scenario ndjson")
	out := fs.String("out", "-", "record ndjson")
	perTimeout := fs.Duration("timeout", 40*time.Second, "per scenario watchdog (a scenario is all its repetitions)")
	maxBad := fs.Int("maxbad", 4, "after this many crashed / hung scenarios the remaining ones are recorded as not-run")
	fs.Parse(args)
	if *root == "" {
		return fmt.Errorf("--root required")
	}
	if isChild() {
		h := &hashChild{root: *root, cur: map[string]hashFile{}}
		if err := os.RemoveAll(*root); err != nil {
			return err
		}
		if err := os.MkdirAll(*root, 0o755); err != nil {
			return err
		}
		return childLoop(h.handle)
	}
	scen, err := readLines(*in)
	if err != nil {
		return err
	}
	w := os.Stdout
	if *out != "-" {
		f, err := os.Create(*out)
		if err != nil {
			return err
		}
		defer f.Close()
		w = f
	}
	nbad := 0
	emit := func(i int, line []byte) {
		var m map[string]any
		if json.Unmarshal(line, &m) == nil {
			if lk, ok := m["leak"].(float64); m["synthetic"] == true || (ok && lk > 0) {
				nbad++
			}
			if _, ok := m["id"]; !ok {
				var s hashScen
				json.Unmarshal(scen[i], &s)
				m["id"] = s.ID
				line, _ = json.Marshal(m)
			}
		}
		w.Write(line)
		w.Write([]byte{'\n'})
	}
	for i := 0; i < len(scen); {
		if nbad >= *maxBad {
			for ; i < len(scen); i++ {
				var s hashScen
				json.Unmarshal(scen[i], &s)
				b, _ := json.Marshal(map[string]any{"id": s.ID, "outcome": "not-run"})
				w.Write(b)
				w.Write([]byte{'\n'})
			}
			break
		}
		j := i + 40
		if j > len(scen) {
			j = len(scen)
		}
		base := i
		if err := supervise([]string{"hash", "--root", *root}, nil, "", scen[i:j], *perTimeout, func(k int, line []byte) { emit(base+k, line) }); err != nil {
			return err
		}
		i = j
	}
	return nil
}

var fixedTime = time.Date(2020, 1, 2, 3, 4, 5, 0, time.UTC)

type hashChild struct {
	root string
	cur  map[string]hashFile
}

func (h *hashChild) ensure(files []hashFile) error {
	want := map[string]hashFile{}
	for _, f := range files {
		want[f.P] = f
	}
	// remove first (deepest first), then create (shallowest first)
	var paths []string
	for p := range h.cur {
		paths = append(paths, p)
	}
	sort.Slice(paths, func(i, j int) bool { return len(paths[i]) > len(paths[j]) })
	for _, p := range paths {
		w, ok := want[p]
		if !ok || w != h.cur[p] {
			os.RemoveAll(filepath.Join(h.root, p))
			delete(h.cur, p)
		}
	}
	paths = paths[:0]
	for p := range want {
		paths = append(paths, p)
	}
	sort.Slice(paths, func(i, j int) bool { return len(paths[i]) < len(paths[j]) })
	for _, p := range paths {
		w := want[p]
		abs := filepath.Join(h.root, p)
		if c, ok := h.cur[p]; ok && c == w {
			// a vanish hook may have removed it behind our back
			if _, err := os.Lstat(abs); err == nil || w.K == "absent" {
				continue
			}
		}
		os.MkdirAll(filepath.Dir(abs), 0o755)
		switch w.K {
		case "reg":
			if err := os.WriteFile(abs, []byte(w.C), 0o644); err != nil {
				return err
			}
			// every file always carries the same modification time: an edit that keeps size and mtime
			// (mtime-preserving tools, coarse timestamps) must still change the digest
			os.Chtimes(abs, fixedTime, fixedTime)
		case "dir":
			if err := os.MkdirAll(abs, 0o755); err != nil {
				return err
			}
		case "dangling":
			os.Remove(abs)
			if err := os.Symlink(filepath.Join(h.root, "no-such-target"), abs); err != nil {
				return err
			}
		case "absent":
			os.RemoveAll(abs)
		case "fifo": // a named pipe nobody writes to
			os.Remove(abs)
			if err := syscall.Mkfifo(abs, 0o644); err != nil {
				return err
			}
		case "dev": // a character device (through a link, as device nodes cannot be made everywhere)
			os.Remove(abs)
			if err := os.Symlink("/dev/null", abs); err != nil {
				return err
			}
		case "eio": // a regular file (so says stat) that opens and then cannot be read: the process's own memory file, through a link
			os.Remove(abs)
			if err := os.Symlink("/proc/self/mem", abs); err != nil {
				return err
			}
		case "ldir": // a symbolic link to a directory
			os.Remove(abs)
			os.MkdirAll(abs+".target", 0o755)
			if err := os.Symlink(abs+".target", abs); err != nil {
				return err
			}
		}
		h.cur[p] = w
	}
	return nil
}

// the hook function is installed once; the current handler is swapped atomically so that late
// events of helper goroutines never race with the harness
var curHook atomic.Pointer[func(ev string, kv ...any)]

func init() {
	verifhook.Fn = func(ev string, kv ...any) {
		if f := curHook.Load(); f != nil {
			(*f)(ev, kv...)
		}
	}
}

func setHook(f func(ev string, kv ...any)) {
	if f == nil {
		curHook.Store(nil)
		return
	}
	curHook.Store(&f)
}

func gid() int64 {
	var buf [64]byte
	n := runtime.Stack(buf[:], false)
	// "goroutine 123 ["
	b := buf[:n]
	b = b[len("goroutine "):]
	i := bytes.IndexByte(b, ' ')
	if i < 0 {
		return -1
	}
	v, _ := strconv.ParseInt(string(b[:i]), 10, 64)
	return v
}

func kvGet(kv []any, key string) any {
	for i := 0; i+1 < len(kv); i += 2 {
		if k, ok := kv[i].(string); ok && k == key {
			return kv[i+1]
		}
	}
	return nil
}

func (h *hashChild) handle(line []byte) any {
	var s hashScen
	if err := json.Unmarshal(line, &s); err != nil {
		return map[string]any{"outcome": "driver-error", "err": err.Error()}
	}
	if s.Reps <= 0 {
		s.Reps = 1
	}
	rec := hashRec{ID: s.ID, NumCPU: runtime.NumCPU(), MaxProcs: runtime.GOMAXPROCS(0), Feasible: true, Outcome: "ok"}
	counts := map[hashOut]int{}
	var order []hashOut
	for rep := 0; rep < s.Reps; rep++ {
		if err := h.ensure(s.Files); err != nil {
			return map[string]any{"id": s.ID, "outcome": "driver-error", "err": err.Error()}
		}
		list := make([]string, len(s.List))
		for i, p := range s.List {
			abs := filepath.Join(h.root, p)
			switch {
			case s.Spell == "rel" || (s.Spell == "mixed" && i%2 == 1):
				os.Chdir(h.root)
				list[i] = "./" + p
				if i%2 == 0 {
					list[i] = p
				}
			case s.Spell == "dot":
				list[i] = filepath.Dir(abs) + "/./" + filepath.Base(abs) + "/../" + filepath.Base(abs)
				if fi, err := os.Lstat(abs); err != nil || !fi.IsDir() {
					list[i] = filepath.Dir(abs) + "/./" + filepath.Base(abs) // x/.. needs x to be a directory
				}
			default:
				list[i] = abs
			}
		}
		vanish := map[string]bool{}
		for _, p := range s.Vanish {
			vanish[filepath.Join(h.root, p)] = true
		}
		var seq int64
		var mu sync.Mutex
		var events []hookEv
		type gateEntry struct {
			file string
			ch   chan struct{}
		}
		var waiting []gateEntry
		arrived := make(chan struct{}, 1<<16)
		recvd := make(chan string, 1<<16)
		var freeRun atomic.Bool
		gated := s.Gated
		setHook(func(ev string, kv ...any) {
			file, _ := kvGet(kv, "file").(string)
			if s.Trace {
				e := hookEv{Seq: atomic.AddInt64(&seq, 1), G: gid(), Ev: ev, File: file}
				if ev == "pool.start" {
					e.N1, _ = kvGet(kv, "workers").(int)
					e.N2, _ = kvGet(kv, "files").(int)
				}
				if file != "" {
					if r, err := filepath.Rel(h.root, file); err == nil {
						e.File = r
					}
				}
				mu.Lock()
				events = append(events, e)
				mu.Unlock()
			}
			switch ev {
			case "pool.start":
				rec.Workers, _ = kvGet(kv, "workers").(int)
			case "worker.recv":
				if vanish[file] {
					os.Remove(file)
					mu.Lock()
					for p, c := range h.cur {
						if filepath.Join(h.root, p) == file {
							c.K = "vanished"
							h.cur[p] = c
						}
					}
					mu.Unlock()
				}
			case "worker.send":
				if gated && !freeRun.Load() {
					ch := make(chan struct{})
					mu.Lock()
					waiting = append(waiting, gateEntry{file, ch})
					mu.Unlock()
					arrived <- struct{}{}
					<-ch
				}
			case "main.recv":
				if gated {
					recvd <- file
				}
			}
		})
		// files that vanish (and come back) at arbitrary moments while being opened, stat'ed or read
		stopChurn := make(chan struct{})
		churnDone := make(chan struct{})
		if len(s.Churn) > 0 {
			go func() {
				defer close(churnDone)
				for {
					for _, p := range s.Churn {
						abs := filepath.Join(h.root, p)
						os.Remove(abs)
						time.Sleep(30 * time.Microsecond) // the file is gone for a moment; also leaves the CPU to the pool on a one-CPU affinity mask
						os.WriteFile(abs, []byte("churn"), 0o644)
						select {
						case <-stopChurn:
							return
						default:
						}
					}
				}
			}()
		} else {
			close(churnDone)
		}
		before := runtime.NumGoroutine()
		type hres struct {
			d   string
			err error
			pan any
		}
		resc := make(chan hres, 1)
		go func() {
			defer func() {
				if p := recover(); p != nil {
					resc <- hres{pan: p}
				}
			}()
			d, err := hash.New().Hash(list)
			resc <- hres{d: d, err: err}
		}()
		if gated {
			release := func(file string) bool {
				deadline := time.After(1500 * time.Millisecond)
				for {
					mu.Lock()
					for i, g := range waiting {
						if g.file == file {
							waiting = append(waiting[:i], waiting[i+1:]...)
							mu.Unlock()
							close(g.ch)
							return true
						}
					}
					mu.Unlock()
					select {
					case <-arrived:
					case <-deadline:
						return false
					}
				}
			}
			for _, p := range s.Order {
				abs := filepath.Join(h.root, p)
				if !release(abs) {
					rec.Feasible = false
					break
				}
				select {
				case got := <-recvd:
					if got != abs {
						rec.Feasible = false
					}
				case <-time.After(3 * time.Second):
					rec.Feasible = false
				}
				if !rec.Feasible {
					break
				}
			}
			// whatever is left runs free
			freeRun.Store(true)
			mu.Lock()
			for _, g := range waiting {
				close(g.ch)
			}
			waiting = nil
			mu.Unlock()
		}
		r := <-resc
		close(stopChurn)
		<-churnDone
		if s.Trace && rep == 0 {
			// the producer and the closer log `jobs.closed` / `results.closed` after the fact: wait for them (bounded)
			for t := 0; t < 200; t++ {
				mu.Lock()
				seen := 0
				for _, e := range events {
					if e.Ev == "jobs.closed" || e.Ev == "results.closed" {
						seen++
					}
				}
				mu.Unlock()
				if seen >= 2 {
					break
				}
				time.Sleep(500 * time.Microsecond)
			}
		}
		setHook(nil)
		o := hashOut{}
		switch {
		case r.pan != nil:
			o.Outcome, o.Err = "panic", fmt.Sprint(r.pan)
		case r.err != nil:
			o.Outcome, o.Err = "error", r.err.Error()
		default:
			o.Outcome, o.Digest = "digest", r.d
		}
		if _, ok := counts[o]; !ok {
			order = append(order, o)
		}
		counts[o]++
		// goroutine accounting with a settle loop (the producer / closer may still be finishing)
		after := runtime.NumGoroutine()
		for t := 0; after > before && t < 250; t++ {
			time.Sleep(time.Duration(1+t/10) * time.Millisecond)
			after = runtime.NumGoroutine()
		}
		if after-before > rec.Leak {
			rec.Leak = after - before
		}
		if rec.Leak > 0 {
			// goroutines were left behind: no point repeating (each repetition would wait for the settle loop again)
			rep = s.Reps
		}
		if s.Trace && rep == 0 {
			mu.Lock()
			rec.Trace = append([]hookEv{}, events...)
			mu.Unlock()
		}
	}
	for _, o := range order {
		o.N = counts[o]
		rec.Outs = append(rec.Outs, o)
	}
	return rec
}
