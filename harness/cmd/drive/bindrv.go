package main

import (
	"bytes"
	"context"
	"crypto/sha256"
	"encoding/hex"
	"encoding/json"
	"flag"
	"fmt"
	"os"
	"os/exec"
	"path/filepath"
	"sort"
	"strings"
	"sync"
	"syscall"
	"time"
)

// The binary driver runs the built spok executable in a throw-away HOME as the unprivileged user nobody, with a
// scrubbed environment and the working directory inside the sandbox, and records exit status, output and full
// before/after snapshots of the sandbox tree.  (--clean must never run with the caller's privileges or cwd.)

type binFile struct {
	P    string `json:"p"`    // path relative to HOME
	C    string `json:"c"`    // content (placeholders @HOME@ @LOG@ are substituted)
	Dir  bool   `json:"dir"`  // a directory
	Mode int    `json:"mode"` // 0 = default
	Link string `json:"link"` // symlink target
}

type binStep struct {
	Cwd   string            `json:"cwd"` // relative to HOME
	Argv  []string          `json:"argv"`
	Env   map[string]string `json:"env"`
	Write []binFile         `json:"write"` // files (re)written before the step (edits between invocations)
}

type binScen struct {
	ID    int       `json:"id"`
	Files []binFile `json:"files"`
	Steps []binStep `json:"steps"`
}

type treeEnt struct {
	P    []string `json:"p"`    // path segments relative to HOME
	K    string   `json:"k"`    // file | dir | link | other
	Mode int      `json:"mode"` // permission bits
	H    string   `json:"h"`    // sha256 of content (files), link target (links)
	Text string   `json:"text"` // content when small and printable (for the judge: .gitignore prefix rule, spokfile)
}

type binStepRec struct {
	Exit    int       `json:"exit"` // -1 = killed by signal / did not start, -2 = timeout
	Signal  string    `json:"signal"`
	Stdout  string    `json:"stdout"`
	Stderr  string    `json:"stderr"`
	Before  []treeEnt `json:"before"`
	After   []treeEnt `json:"after"`
	Effects []string  `json:"effects"` // lines appended to the side-effect log during this step
	Ms      int       `json:"ms"`
}

type binRec struct {
	ID      int          `json:"id"`
	Home    string       `json:"home"`
	Steps   []binStepRec `json:"steps"`
	Outcome string       `json:"outcome"`
	Err     string       `json:"err"`
}

const nobodyID = 65534

func init() { register("bin", binMain) }

func binMain(args []string) error {
	fl := flag.NewFlagSet("bin", flag.ExitOnError)
	root := fl.String("root", "", "sandbox root (must be reachable by nobody)")
	spok := fl.String("spok", "", "path of the built spok binary (executable by nobody)")
	in := fl.String("in", "-", "scenarios")
	out := fl.String("out", "-", "records")
	procs := fl.Int("procs", 8, "parallel sandboxes")
	fl.Parse(args)
	scen, err := readLines(*in)
	if err != nil {
		return err
	}
	if err := os.MkdirAll(*root, 0o755); err != nil {
		return err
	}
	os.Chmod(*root, 0o755)
	results := make([][]byte, len(scen))
	var wg sync.WaitGroup
	idx := make(chan int, len(scen))
	for i := range scen {
		idx <- i
	}
	close(idx)
	for w := 0; w < *procs; w++ {
		wg.Add(1)
		go func(w int) {
			defer wg.Done()
			for i := range idx {
				var s binScen
				var rec binRec
				if jerr := json.Unmarshal(scen[i], &s); jerr != nil {
					rec = binRec{Outcome: "driver-error", Err: jerr.Error()}
				} else {
					rec = binRun(filepath.Join(*root, fmt.Sprintf("w%d", w)), *spok, &s)
				}
				b, _ := json.Marshal(rec)
				results[i] = b
			}
		}(w)
	}
	wg.Wait()
	w := os.Stdout
	if *out != "-" {
		f, err := os.Create(*out)
		if err != nil {
			return err
		}
		defer f.Close()
		w = f
	}
	for _, r := range results {
		w.Write(r)
		w.Write([]byte{'\n'})
	}
	return nil
}

func subst(s, home, logp string) string {
	return strings.ReplaceAll(strings.ReplaceAll(s, "@HOME@", home), "@LOG@", logp)
}

func writeFiles(home, logp string, files []binFile) error {
	for _, f := range files {
		abs := filepath.Join(home, f.P)
		if f.Dir {
			if err := os.MkdirAll(abs, 0o755); err != nil {
				return err
			}
			os.Chown(abs, nobodyID, nobodyID)
			continue
		}
		if err := os.MkdirAll(filepath.Dir(abs), 0o755); err != nil {
			return err
		}
		if f.Link != "" {
			os.Remove(abs)
			if err := os.Symlink(subst(f.Link, home, logp), abs); err != nil {
				return err
			}
			os.Lchown(abs, nobodyID, nobodyID)
			continue
		}
		mode := os.FileMode(0o644)
		if f.Mode != 0 {
			mode = os.FileMode(f.Mode)
		}
		if err := os.WriteFile(abs, []byte(subst(f.C, home, logp)), mode); err != nil {
			return err
		}
		os.Chmod(abs, mode)
	}
	// everything under HOME belongs to nobody
	return filepath.Walk(home, func(p string, _ os.FileInfo, err error) error {
		if err == nil {
			os.Lchown(p, nobodyID, nobodyID)
		}
		return nil
	})
}

func snapshot(home string) []treeEnt {
	var out []treeEnt
	filepath.Walk(home, func(p string, info os.FileInfo, err error) error {
		if err != nil || p == home {
			return nil
		}
		rel, _ := filepath.Rel(home, p)
		e := treeEnt{P: strings.Split(filepath.ToSlash(rel), "/"), Mode: int(info.Mode().Perm())}
		switch {
		case info.Mode()&os.ModeSymlink != 0:
			e.K = "link"
			e.H, _ = os.Readlink(p)
		case info.IsDir():
			e.K = "dir"
		case info.Mode().IsRegular():
			e.K = "file"
			b, rerr := os.ReadFile(p)
			if rerr == nil {
				sum := sha256.Sum256(b)
				e.H = hex.EncodeToString(sum[:])
				if len(b) <= 4096 && isPrintable(b) {
					e.Text = string(b)
				}
			}
		default:
			e.K = "other"
		}
		out = append(out, e)
		return nil
	})
	sort.Slice(out, func(i, j int) bool { return strings.Join(out[i].P, "/") < strings.Join(out[j].P, "/") })
	if out == nil {
		out = []treeEnt{}
	}
	return out
}

func isPrintable(b []byte) bool {
	for _, c := range b {
		if c >= 0x80 || (c < 0x20 && c != '\n' && c != '\t' && c != '\r') {
			return false
		}
	}
	return true
}

func readLog(p string) []string {
	b, err := os.ReadFile(p)
	if err != nil || len(b) == 0 {
		return []string{}
	}
	return strings.Split(strings.TrimRight(string(b), "\n"), "\n")
}

func binRun(base, spok string, s *binScen) binRec {
	rec := binRec{ID: s.ID, Outcome: "ok", Steps: []binStepRec{}}
	// base/ is root-owned (so nothing run as nobody can remove HOME's parent); base/home is nobody's
	os.Chmod(base, 0o755)
	exec.Command("chmod", "-R", "u+rwx", base).Run()
	os.RemoveAll(base)
	home := filepath.Join(base, "home")
	if err := os.MkdirAll(home, 0o755); err != nil {
		return binRec{ID: s.ID, Outcome: "driver-error", Err: err.Error()}
	}
	os.Chmod(base, 0o755)
	logp := filepath.Join(base, "effects.log")
	os.WriteFile(logp, nil, 0o666)
	os.Chmod(logp, 0o666)
	rec.Home = home
	if err := writeFiles(home, logp, s.Files); err != nil {
		return binRec{ID: s.ID, Outcome: "driver-error", Err: err.Error()}
	}
	os.Chown(home, nobodyID, nobodyID)
	for _, st := range s.Steps {
		if len(st.Write) > 0 {
			if err := writeFiles(home, logp, st.Write); err != nil {
				return binRec{ID: s.ID, Outcome: "driver-error", Err: err.Error()}
			}
		}
		sr := binStepRec{Before: snapshot(home)}
		nlog := len(readLog(logp))
		ctx, cancel := context.WithTimeout(context.Background(), 30*time.Second)
		argv := make([]string, len(st.Argv))
		for i, a := range st.Argv {
			argv[i] = subst(a, home, logp)
		}
		cmd := exec.CommandContext(ctx, spok, argv...)
		cmd.Dir = filepath.Join(home, st.Cwd)
		cmd.Env = []string{"HOME=" + home, "PATH=/usr/local/bin:/usr/bin:/bin", "LANG=C", "NO_COLOR=1", "TERM=dumb"}
		for k, v := range st.Env {
			cmd.Env = append(cmd.Env, k+"="+subst(v, home, logp))
		}
		cmd.SysProcAttr = &syscall.SysProcAttr{Credential: &syscall.Credential{Uid: nobodyID, Gid: nobodyID, Groups: []uint32{}}, Setpgid: true}
		var so, se bytes.Buffer
		cmd.Stdout, cmd.Stderr = &so, &se
		t0 := time.Now()
		err := cmd.Run()
		sr.Ms = int(time.Since(t0).Milliseconds())
		cancel()
		switch e := err.(type) {
		case nil:
			sr.Exit = 0
		case *exec.ExitError:
			if ws, ok := e.Sys().(syscall.WaitStatus); ok && ws.Signaled() {
				sr.Exit, sr.Signal = -1, ws.Signal().String()
			} else {
				sr.Exit = e.ExitCode()
			}
		default:
			sr.Exit, sr.Signal = -1, err.Error()
		}
		if ctx.Err() == context.DeadlineExceeded {
			sr.Exit, sr.Signal = -2, "timeout"
			if cmd.Process != nil {
				syscall.Kill(-cmd.Process.Pid, syscall.SIGKILL)
			}
		}
		sr.Stdout, sr.Stderr = so.String(), se.String()
		sr.After = snapshot(home)
		all := readLog(logp)
		if len(all) > nlog {
			sr.Effects = all[nlog:]
		} else {
			sr.Effects = []string{}
		}
		rec.Steps = append(rec.Steps, sr)
	}
	return rec
}
