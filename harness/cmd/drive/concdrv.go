package main

import (
	"encoding/json"
	"flag"
	"fmt"
	"os"
	"path/filepath"
	"strings"
	"sync"
	"time"

	"github.com/FollowTheProcess/spok/file"
	"github.com/FollowTheProcess/spok/iostream"
	"github.com/FollowTheProcess/spok/parser"
)

// run-conc replays a behaviour of SpokRunConc.tla (spec/): several invocations of SpokFile.Run overlapping in one
// project directory, each in its own goroutine and stepped from hook point to hook point by the scheduler below.
// The blocking hook is the scheduler gate.  This is an exploration beyond the listed properties (DESIGN 9.8); no
// registered check uses it.

type concStep struct {
	Op string `json:"op"` // edit | begin | load | decide | skip | invalidate | exec | persist
	P  int    `json:"p"`
	T  string `json:"t"`
	F  string `json:"f"`
	C  int    `json:"c"`
}

type concProc struct {
	id      int
	gid     int64
	until   map[string]bool
	gate    chan map[string]bool // scheduler -> process: run on, stop at the next of these
	reached chan string          // process -> scheduler: stopped at this gate ("end" when Run returned)
	passed  []string
	at      string // the gate the process is blocked at
	rr      *recRunner
	edge    edge
}

type concStepRec struct {
	concStep
	Reached string   `json:"reached"`
	Passed  []string `json:"passed"` // hook points passed during this step
	Cache   string   `json:"cache"`  // the cache file after the step
}

func init() { register("run-conc", runConc) }

// gate at which a process stops after the model step `op`
func stopSet(op string) map[string]bool {
	switch op {
	case "load":
		return map[string]bool{"cache.loaded": true}
	case "decide":
		return map[string]bool{"cache.before-dump": true, "task.before-exec": true, "task.skip": true}
	case "invalidate":
		return map[string]bool{"task.before-exec": true}
	case "exec":
		return map[string]bool{"task.after-exec": true}
	}
	return map[string]bool{} // skip, persist: to the end
}

func runConc(args []string) error {
	fl := flag.NewFlagSet("run-conc", flag.ExitOnError)
	root := fl.String("root", "", "fresh sandbox directory")
	progPath := fl.String("program", "", "program.json")
	histPath := fl.String("hist", "", "hist.json: the steps of one behaviour of SpokRunConc")
	out := fl.String("out", "", "result.json")
	fl.Parse(args)
	p, err := loadProgram(*progPath)
	if err != nil {
		return err
	}
	b, err := os.ReadFile(*histPath)
	if err != nil {
		return err
	}
	var hist []concStep
	if err := json.Unmarshal(b, &hist); err != nil {
		return err
	}
	sb, err := newSandbox(*root, p)
	if err != nil {
		return err
	}
	if err := sb.materialise(initState(p)); err != nil {
		return err
	}
	cachePath := filepath.Join(*root, ".spok", "cache.json")
	readCache := func() string {
		c, rerr := os.ReadFile(cachePath)
		if rerr != nil {
			return ""
		}
		return string(c)
	}

	var mu sync.Mutex
	byGid := map[int64]*concProc{}
	setHook(func(ev string, kv ...any) {
		if !(strings.HasPrefix(ev, "task.") || strings.HasPrefix(ev, "cache.")) {
			return
		}
		mu.Lock()
		pr := byGid[gid()]
		mu.Unlock()
		if pr == nil {
			return
		}
		pr.passed = append(pr.passed, ev)
		if pr.until[ev] {
			pr.reached <- ev
			pr.until = <-pr.gate
		}
	})
	defer setHook(nil)

	procs := map[int]*concProc{}
	var steps []concStepRec
	var invs []map[string]any
	for i, st := range hist {
		rec := concStepRec{concStep: st, Passed: []string{}}
		switch st.Op {
		case "edit":
			fp := filepath.Join(*root, st.F)
			if err := os.WriteFile(fp, contentBytes(st.C), 0o644); err != nil {
				return err
			}
			// same length, fixed mtime: only the content differs
			ts := time.Unix(1700000000, 0)
			os.Chtimes(fp, ts, ts)
		case "begin":
			if procs[st.P] != nil {
				return fmt.Errorf("step %d: process %d is still running", i, st.P)
			}
			pr := &concProc{id: st.P, gate: make(chan map[string]bool), reached: make(chan string, 1), rr: &recRunner{failing: map[string]bool{}}}
			pr.edge = edge{Act: "invoke", Req: []string{st.T}, Failing: []string{}, ErrCls: "none", Reports: []report{}, Ran: []ranRec{}}
			procs[st.P] = pr
			ready := make(chan struct{})
			go func(req string) {
				mu.Lock()
				pr.gid = gid()
				byGid[pr.gid] = pr
				mu.Unlock()
				close(ready)
				pr.until = <-pr.gate // synthetic gate "start"
				defer func() {
					if r := recover(); r != nil {
						pr.edge.Outcome, pr.edge.Err = "panic", fmt.Sprint(r)
					}
					mu.Lock()
					delete(byGid, pr.gid)
					mu.Unlock()
					pr.reached <- "end"
				}()
				tree, perr := parser.New(sb.text).Parse()
				if perr != nil {
					pr.edge.Outcome, pr.edge.Err = "error", perr.Error()
					return
				}
				sf, lerr := file.New(tree, sb.root, nopLogger{})
				if lerr != nil {
					pr.edge.Outcome, pr.edge.Err = "error", lerr.Error()
					return
				}
				results, rerr := sf.Run(iostream.Null(), pr.rr, false, req)
				if rerr != nil {
					pr.edge.Outcome, pr.edge.Err = "error", rerr.Error()
					return
				}
				pr.edge.Outcome = "normal"
				for _, r := range results {
					pr.edge.Reports = append(pr.edge.Reports, report{T: r.Task, Skipped: r.Skipped, NRes: len(r.CommandResults)})
				}
			}(st.T)
			<-ready
			rec.Reached = "start"
		default:
			pr := procs[st.P]
			if pr == nil {
				return fmt.Errorf("step %d: process %d has not begun", i, st.P)
			}
			n0 := len(pr.passed)
			if stopSet(st.Op)[pr.at] && st.Op == "invalidate" {
				// nothing to forget (no digest stored): the code is already past this step
				rec.Reached = pr.at
				rec.Cache = readCache()
				steps = append(steps, rec)
				continue
			}
			pr.gate <- stopSet(st.Op)
			select {
			case ev := <-pr.reached:
				rec.Reached = ev
				pr.at = ev
			case <-time.After(20 * time.Second):
				return fmt.Errorf("step %d (%s of process %d): no gate reached within 20 s", i, st.Op, st.P)
			}
			rec.Passed = append(rec.Passed, pr.passed[n0:]...)
			if rec.Reached == "end" {
				for _, l := range pr.rr.log {
					n := len(pr.edge.Ran)
					if n > 0 && pr.edge.Ran[n-1].T == l.task {
						pr.edge.Ran[n-1].N++
					} else {
						pr.edge.Ran = append(pr.edge.Ran, ranRec{T: l.task, N: 1, OK: l.status == 0})
					}
				}
				invs = append(invs, map[string]any{"p": pr.id, "step": i, "req": pr.edge.Req, "outcome": pr.edge.Outcome, "err": pr.edge.Err,
					"reports": pr.edge.Reports, "ran": pr.edge.Ran})
				delete(procs, st.P)
			}
		}
		rec.Cache = readCache()
		steps = append(steps, rec)
	}
	res := map[string]any{"steps": steps, "invocations": invs, "unfinished": len(procs)}
	ob, _ := json.MarshalIndent(res, "", " ")
	return os.WriteFile(*out, ob, 0o644)
}
