package main

import (
	"encoding/json"
	"flag"
	"fmt"
	"os"
	"path/filepath"
	"sort"
	"strconv"
	"strings"

	"github.com/FollowTheProcess/spok/file"
	"github.com/FollowTheProcess/spok/iostream"
	"github.com/FollowTheProcess/spok/parser"
	"github.com/FollowTheProcess/spok/shell"
)

// ---- program description (shared with the TLA+ side through program.json) ----

type progTask struct {
	Name     string   `json:"name"`
	Lit      []string `json:"lit"`      // literal file dependencies
	Glob     []string `json:"glob"`     // glob dependency patterns
	Deps     []string `json:"deps"`     // task dependencies
	GlobCand []string `json:"globcand"` // universe files the patterns denote (scenario knowledge, used by the spec only)
}

type program struct {
	Name      string         `json:"name"`
	Tasks     []progTask     `json:"tasks"`
	Files     []string       `json:"files"`
	NContents int            `json:"ncontents"`
	Init      map[string]int `json:"init"`
	Crash     bool           `json:"crash"`     // also explore a kill at every hook point / inside every command
	Tear      []int          `json:"tear"`      // prefix lengths to tear the cache file to; -1 = every length
	Reps      int            `json:"reps"`      // repetitions per invocation (map iteration order varies)
	MaxStates int            `json:"maxstates"` // safety bound; exceeding it is reported, not hidden
	ReqSets   [][]string     `json:"reqsets"`   // request lists to explore
	FailSets  [][]string     `json:"failsets"`  // sets of tasks whose first command exits non-zero
	// files a task writes when its last command runs: task -> [[file, content id], ...] (a generator whose output another task depends on)
	Effects map[string][][2]any `json:"effects"`
	ErrSets [][]string          `json:"errsets"` // sets of tasks whose first command cannot be run at all: the RUNNER returns an error (the real one does for a shell syntax error)
}

const absent = 9
const ncmds = 2

func (p *program) spokfile() string {
	var b strings.Builder
	for _, t := range p.Tasks {
		var args []string
		for _, l := range t.Lit {
			args = append(args, `"`+l+`"`)
		}
		for _, g := range t.Glob {
			args = append(args, `"`+g+`"`)
		}
		args = append(args, t.Deps...)
		fmt.Fprintf(&b, "task %s(%s) {\n", t.Name, strings.Join(args, ", "))
		for i := 1; i <= ncmds; i++ {
			fmt.Fprintf(&b, "    echo %s%d\n", t.Name, i)
		}
		b.WriteString("}\n\n")
	}
	return b.String()
}

func contentBytes(c int) []byte { return []byte(fmt.Sprintf("content-%d\n", c)) }

// ---- real states: the bytes of everything in the project directory except the spokfile ----

type rstate struct {
	files map[string]int    // universe file -> content id (absent = not in map)
	other map[string]string // every other regular file (relative path) -> bytes; "dir:" entries for empty dirs
}

func (s *rstate) key() string {
	var parts []string
	for f, c := range s.files {
		parts = append(parts, fmt.Sprintf("F %s=%d", f, c))
	}
	for f, b := range s.other {
		parts = append(parts, fmt.Sprintf("O %s=%q", f, b))
	}
	sort.Strings(parts)
	return strings.Join(parts, "\n")
}

func (s *rstate) clone() *rstate {
	n := &rstate{files: map[string]int{}, other: map[string]string{}}
	for k, v := range s.files {
		n.files[k] = v
	}
	for k, v := range s.other {
		n.other[k] = v
	}
	return n
}

type sandbox struct {
	root string
	prog *program
	cur  *rstate // what is on disk now (nil = unknown)
	text string
}

func newSandbox(root string, p *program) (*sandbox, error) {
	if err := os.RemoveAll(root); err != nil {
		return nil, err
	}
	if err := os.MkdirAll(root, 0o755); err != nil {
		return nil, err
	}
	sb := &sandbox{root: root, prog: p, text: p.spokfile()}
	if err := os.WriteFile(filepath.Join(root, "spokfile"), []byte(sb.text), 0o644); err != nil {
		return nil, err
	}
	sb.cur = &rstate{files: map[string]int{}, other: map[string]string{}}
	return sb, nil
}

func (sb *sandbox) materialise(want *rstate) error {
	cur := sb.cur
	if cur == nil {
		// unknown: wipe everything but the spokfile
		ents, _ := os.ReadDir(sb.root)
		for _, e := range ents {
			if e.Name() != "spokfile" {
				os.RemoveAll(filepath.Join(sb.root, e.Name()))
			}
		}
		cur = &rstate{files: map[string]int{}, other: map[string]string{}}
	}
	// 1. remove what must not be there (stale other files first, then universe files and the directories they leave empty)
	var rm []string
	for f := range cur.other {
		if _, ok := want.other[f]; !ok {
			rm = append(rm, f)
		}
	}
	sort.Slice(rm, func(i, j int) bool { return len(rm[i]) > len(rm[j]) })
	for _, f := range rm {
		os.RemoveAll(filepath.Join(sb.root, strings.TrimPrefix(f, "foreign:")))
	}
	if len(want.other) == 0 && len(cur.other) > 0 {
		os.RemoveAll(filepath.Join(sb.root, ".spok"))
	}
	for f := range cur.files {
		if _, ok := want.files[f]; !ok {
			os.Remove(filepath.Join(sb.root, f))
			for d := filepath.Dir(f); d != "." && d != "/"; d = filepath.Dir(d) {
				if os.Remove(filepath.Join(sb.root, d)) != nil { // only succeeds on an empty directory
					break
				}
			}
		}
	}
	// 2. write what has to be there
	for f, c := range want.files {
		if cc, ok := cur.files[f]; !ok || cc != c {
			p := filepath.Join(sb.root, f)
			os.MkdirAll(filepath.Dir(p), 0o755)
			if err := os.WriteFile(p, contentBytes(c), 0o644); err != nil {
				return err
			}
			// same size (all contents have one length) and same mtime for every version of a file
			os.Chtimes(p, fixedTime, fixedTime)
		}
	}
	var mk []string
	for f := range want.other {
		mk = append(mk, f)
	}
	sort.Strings(mk)
	for _, f := range mk {
		b := want.other[f]
		if cb, ok := cur.other[f]; ok && cb == b {
			continue
		}
		if strings.HasPrefix(f, "foreign:") {
			f = strings.TrimPrefix(f, "foreign:")
		}
		p := filepath.Join(sb.root, f)
		os.MkdirAll(filepath.Dir(p), 0o755)
		if err := os.WriteFile(p, []byte(b), 0o644); err != nil {
			return err
		}
	}
	sb.cur = want.clone()
	return nil
}

// fileIDs reads the universe files as they are on disk now: content id, 9 = absent, 7 = foreign bytes.
func (sb *sandbox) fileIDs() map[string]int {
	m := map[string]int{}
	for _, f := range sb.prog.Files {
		m[f] = 9
		b, err := os.ReadFile(filepath.Join(sb.root, f))
		if err != nil {
			continue
		}
		m[f] = 7
		for c := 0; c < sb.prog.NContents; c++ {
			if string(b) == string(contentBytes(c)) {
				m[f] = c
				break
			}
		}
	}
	return m
}

func (sb *sandbox) snapshot() (*rstate, error) {
	s := &rstate{files: map[string]int{}, other: map[string]string{}}
	uni := map[string]bool{}
	for _, f := range sb.prog.Files {
		uni[f] = true
	}
	err := filepath.Walk(sb.root, func(p string, info os.FileInfo, err error) error {
		if err != nil {
			return err
		}
		rel, _ := filepath.Rel(sb.root, p)
		if rel == "." || rel == "spokfile" {
			return nil
		}
		if info.IsDir() {
			return nil // (empty directories are not part of the state; materialise removes them)
		}
		b, rerr := os.ReadFile(p)
		if rerr != nil {
			return rerr
		}
		if uni[rel] {
			for c := 0; c < sb.prog.NContents; c++ {
				if string(b) == string(contentBytes(c)) {
					s.files[rel] = c
					return nil
				}
			}
			// a universe file with foreign content: keep the bytes so that the state is still exact
			s.other["foreign:"+rel] = string(b)
			return nil
		}
		s.other[rel] = string(b)
		return nil
	})
	sb.cur = s.clone()
	return s, err
}

// ---- one real invocation ----

type report struct {
	T       string `json:"t"`
	Skipped bool   `json:"skipped"`
	NRes    int    `json:"nres"`
}

type ranRec struct {
	T  string `json:"t"`
	N  int    `json:"n"`
	OK bool   `json:"ok"`
}

type crashAt struct {
	Kind string `json:"kind"` // "" | "event" | "cmd"
	K    int    `json:"k"`
}

type edge struct {
	Act     string   `json:"act"` // edit | rmcache | tear | invoke
	F       string   `json:"f"`
	C       int      `json:"c"`
	K       int      `json:"k"`
	Req     []string `json:"req"`
	Force   bool     `json:"force"`
	Failing []string `json:"failing"`
	Reports []report `json:"reports"`
	Ran     []ranRec `json:"ran"`
	// what the dependency files were when each task's turn came (seen) and when its last command had finished (done): a task of the
	// run may write a file that a later task of the same run depends on, so the invocation's start and end states are not enough.
	// Taken by the recording runner around every command; a task without executed commands saw what its predecessor left.  "_" = at the start
	Seen    map[string]map[string]int `json:"seen,omitempty"`
	Done    map[string]map[string]int `json:"done,omitempty"`
	Outcome string   `json:"outcome"` // normal | error | panic | killed
	ErrCls  string   `json:"errcls"`  // none | cache | other
	Err     string   `json:"err"`
	Killed  bool     `json:"killed"`
	At      string   `json:"at"`
	Crash   crashAt  `json:"crash"`
	Pred    string   `json:"pred"` // replay of a model-generated history: did the observation match the model's prediction
	Dst     int      `json:"dst"`
}

type recRunner struct {
	effects func(task, cmd string) // applied after a command has been logged as executed
	failing map[string]bool
	erring  map[string]bool // the runner itself fails on this task's first command (no exit status)
	log     []struct {
		task, cmd string
		status    int
	}
	crashCmd int // panic when the crashCmd-th command (1-based) is started; 0 = never
	snap     func() map[string]int
	pre      map[string]map[string]int // task -> files before the first command of its latest execution
	post     map[string]map[string]int // task -> files after its latest command
}

type killSentinel struct{ at string }

func (r *recRunner) Run(cmd string, _ iostream.IOStream, task string, _ []string) (shell.Result, error) {
	if r.crashCmd > 0 && len(r.log)+1 == r.crashCmd {
		panic(killSentinel{at: fmt.Sprintf("inside command %d (%s)", r.crashCmd, cmd)})
	}
	st := 0
	if r.snap != nil {
		if n := len(r.log); n == 0 || r.log[n-1].task != task {
			r.pre[task] = r.snap()
		}
		defer func() { r.post[task] = r.snap() }()
	}
	if r.erring[task] && strings.HasSuffix(cmd, "1") {
		r.log = append(r.log, struct {
			task, cmd string
			status    int
		}{task, cmd, -1})
		return shell.Result{}, fmt.Errorf("could not run %q: syntax error", cmd)
	}
	if r.failing[task] && strings.HasSuffix(cmd, "1") {
		st = 1
	}
	r.log = append(r.log, struct {
		task, cmd string
		status    int
	}{task, cmd, st})
	if r.effects != nil && st == 0 {
		r.effects(task, cmd)
	}
	return shell.Result{Cmd: cmd, Status: st}, nil
}

type nopLogger struct{}

func (nopLogger) Sync() error          { return nil }
func (nopLogger) Debug(string, ...any) {}

// invoke runs `spok <req...> [--force]` in-process against the sandbox as it is on disk now.
// Returns the observation (without Dst) and the number of run-loop hook events seen.
func (sb *sandbox) invoke(req []string, force bool, failing []string, crash crashAt) (e edge, nevents int) {
	e = edge{Act: "invoke", Req: req, Force: force, Failing: failing, Crash: crash, ErrCls: "none",
		Reports: []report{}, Ran: []ranRec{}}
	if e.Failing == nil {
		e.Failing = []string{}
	}
	rr := &recRunner{failing: map[string]bool{}, erring: map[string]bool{}, pre: map[string]map[string]int{}, post: map[string]map[string]int{}}
	rr.snap = sb.fileIDs
	start := sb.fileIDs()
	for _, f := range failing {
		if strings.HasPrefix(f, "!") { // "!T": the runner returns an error on T's first command
			rr.erring[f[1:]] = true
		} else {
			rr.failing[f] = true
		}
	}
	if crash.Kind == "cmd" {
		rr.crashCmd = crash.K
	}
	if len(sb.prog.Effects) > 0 {
		rr.effects = func(task, cmd string) {
			if !strings.HasSuffix(cmd, strconv.Itoa(ncmds)) { // the task's last command
				return
			}
			for _, fx := range sb.prog.Effects[task] {
				f, _ := fx[0].(string)
				p := filepath.Join(sb.root, f)
				os.MkdirAll(filepath.Dir(p), 0o755)
				if src, ok := fx[1].(string); ok && strings.HasPrefix(src, "=") { // "=s.txt": f becomes a copy of s.txt (if that exists)
					if b, err := os.ReadFile(filepath.Join(sb.root, src[1:])); err == nil {
						os.WriteFile(p, b, 0o644)
					}
					continue
				}
				c, _ := fx[1].(float64)
				os.WriteFile(p, contentBytes(int(c)), 0o644)
			}
		}
	}
	count := 0
	var names []string
	setHook(func(ev string, kv ...any) {
		if !(strings.HasPrefix(ev, "task.") || strings.HasPrefix(ev, "cache.")) {
			return
		}
		count++
		if t, ok := kvGet(kv, "task").(string); ok {
			ev = ev + "(" + t + ")"
		}
		names = append(names, ev)
		if crash.Kind == "event" && count == crash.K {
			panic(killSentinel{at: fmt.Sprintf("hook %d %s", count, ev)})
		}
	})
	defer setHook(nil)
	func() {
		defer func() {
			if p := recover(); p != nil {
				if ks, ok := p.(killSentinel); ok {
					e.Outcome, e.Killed, e.At = "killed", true, ks.at
				} else {
					e.Outcome, e.Err = "panic", fmt.Sprint(p)
				}
			}
		}()
		tree, err := parser.New(sb.text).Parse()
		if err != nil {
			e.Outcome, e.ErrCls, e.Err = "error", "other", "parse: "+err.Error()
			return
		}
		sf, err := file.New(tree, sb.root, nopLogger{})
		if err != nil {
			e.Outcome, e.ErrCls, e.Err = "error", "other", "load: "+err.Error()
			return
		}
		results, err := sf.Run(iostream.Null(), rr, force, req...)
		if err != nil {
			e.Outcome, e.Err = "error", err.Error()
			if strings.Contains(strings.ToLower(err.Error()), "cache") {
				e.ErrCls = "cache"
			} else if len(rr.erring) > 0 && strings.Contains(err.Error(), "encountered an error") {
				e.ErrCls = "runner" // the environment made a command unrunnable: spok has to stop with this error
			} else {
				e.ErrCls = "other"
			}
			return
		}
		e.Outcome = "normal"
		for _, r := range results {
			e.Reports = append(e.Reports, report{T: r.Task, Skipped: r.Skipped, NRes: len(r.CommandResults)})
		}
	}()
	// ground truth of what executed: the runner's log, aggregated per maximal run of one task
	for _, l := range rr.log {
		n := len(e.Ran)
		if n > 0 && e.Ran[n-1].T == l.task {
			e.Ran[n-1].N++
			e.Ran[n-1].OK = e.Ran[n-1].OK && l.status == 0
		} else {
			e.Ran = append(e.Ran, ranRec{T: l.task, N: 1, OK: l.status == 0})
		}
	}
	for i := range e.Ran {
		e.Ran[i].OK = e.Ran[i].OK && e.Ran[i].N == ncmds
	}
	if crash.Kind == "" {
		e.At = strings.Join(names, " ")
	}
	e.Seen, e.Done = map[string]map[string]int{"_": start}, map[string]map[string]int{"_": start}
	cur := start
	for _, r := range e.Reports {
		if p, ok := rr.pre[r.T]; ok {
			e.Seen[r.T] = p
			if q, ok := rr.post[r.T]; ok {
				cur = q
			}
		} else {
			e.Seen[r.T] = cur
		}
	}
	for t, p := range rr.pre {
		if _, ok := e.Seen[t]; !ok {
			e.Seen[t] = p
		}
	}
	for t, q := range rr.post {
		e.Done[t] = q
	}
	return e, count
}

func normEdge(e *edge) {
	if e.Reports == nil {
		e.Reports = []report{}
	}
	if e.Ran == nil {
		e.Ran = []ranRec{}
	}
	if e.Req == nil {
		e.Req = []string{}
	}
	if e.Failing == nil {
		e.Failing = []string{}
	}
	if e.ErrCls == "" {
		e.ErrCls = "none"
	}
}

func (e *edge) sig() string {
	c := *e
	c.Err = ""
	if c.Outcome != "killed" {
		c.At = ""
	}
	b, _ := json.Marshal(c)
	return string(b)
}

// ---- exhaustive exploration of the real state space ----

type node struct {
	ID    int            `json:"id"`
	Fs    map[string]int `json:"fs"`
	Cache string         `json:"cache"` // none | ok | torn  (informational: presence/parseability of cache.json)
	Out   []edge         `json:"out"`
}

func fsOf(p *program, s *rstate) map[string]int {
	m := map[string]int{}
	for _, f := range p.Files {
		if c, ok := s.files[f]; ok {
			m[f] = c
		} else {
			m[f] = absent
		}
	}
	return m
}

const cacheRel = ".spok/cache.json"

func cacheInfo(s *rstate) string {
	b, ok := s.other[cacheRel]
	if !ok {
		return "none"
	}
	var m map[string]string
	if json.Unmarshal([]byte(b), &m) != nil {
		return "torn"
	}
	return "ok"
}

func init() {
	register("run-explore", runExplore)
	register("run-replay", runReplay)
}

func loadProgram(path string) (*program, error) {
	b, err := os.ReadFile(path)
	if err != nil {
		return nil, err
	}
	var p program
	if err := json.Unmarshal(b, &p); err != nil {
		return nil, err
	}
	if p.Reps <= 0 {
		p.Reps = 1
	}
	return &p, nil
}

func runExplore(args []string) error {
	fl := flag.NewFlagSet("run-explore", flag.ExitOnError)
	root := fl.String("root", "", "sandbox directory (fixed for the whole exploration: digests contain absolute paths)")
	progPath := fl.String("program", "", "program.json")
	out := fl.String("out", "", "graph.ndjson")
	fl.Parse(args)
	p, err := loadProgram(*progPath)
	if err != nil {
		return err
	}
	sb, err := newSandbox(*root, p)
	if err != nil {
		return err
	}
	init0 := initState(p)
	ids := map[string]int{}
	var states []*rstate
	var nodes []*node
	intern := func(s *rstate) int {
		k := s.key()
		if id, ok := ids[k]; ok {
			return id
		}
		id := len(states)
		ids[k] = id
		states = append(states, s)
		nodes = append(nodes, &node{ID: id, Fs: fsOf(p, s), Cache: cacheInfo(s)})
		return id
	}
	intern(init0)
	invocations := 0
	truncated := false
	for qi := 0; qi < len(states); qi++ {
		if p.MaxStates > 0 && len(states) > p.MaxStates {
			// stop expanding: what has been explored (all histories up to this breadth-first frontier) is still written out and judged
			truncated = true
			break
		}
		s := states[qi]
		n := nodes[qi]
		seen := map[string]bool{}
		add := func(e edge) {
			normEdge(&e)
			k := e.sig()
			if !seen[k] {
				seen[k] = true
				n.Out = append(n.Out, e)
			}
		}
		// environment: edits, cache removal, torn cache
		for _, f := range p.Files {
			cur, ok := s.files[f]
			if !ok {
				cur = absent
			}
			for c := 0; c <= p.NContents; c++ {
				cc := c
				if c == p.NContents {
					cc = absent
				}
				if cc == cur {
					continue
				}
				t := s.clone()
				if cc == absent {
					delete(t.files, f)
				} else {
					t.files[f] = cc
				}
				add(edge{Act: "edit", F: f, C: cc, Dst: intern(t)})
			}
		}
		if len(s.other) > 0 {
			t := s.clone()
			t.other = map[string]string{}
			add(edge{Act: "rmcache", Dst: intern(t)})
		}
		if cb, ok := s.other[cacheRel]; ok && len(p.Tear) > 0 {
			var ks []int
			if len(p.Tear) == 1 && p.Tear[0] == -1 {
				for k := 0; k < len(cb); k++ {
					ks = append(ks, k)
				}
			} else {
				for _, k := range p.Tear {
					if k < 0 {
						k = len(cb) + k // -2 = all but one byte, ...
					}
					if k >= 0 && k < len(cb) {
						ks = append(ks, k)
					}
				}
			}
			for _, k := range ks {
				t := s.clone()
				t.other[cacheRel] = cb[:k]
				add(edge{Act: "tear", K: k, Dst: intern(t)})
			}
		}
		// invocations
		for _, req := range p.ReqSets {
			for _, force := range []bool{false, true} {
				failopts := append([][]string{}, p.FailSets...)
				for _, es := range p.ErrSets {
					var fs []string
					for _, t := range es {
						fs = append(fs, "!"+t)
					}
					failopts = append(failopts, fs)
				}
				for _, failing := range failopts {
					var nev, ncmd int
					for rep := 0; rep < p.Reps; rep++ {
						if err := sb.materialise(s); err != nil {
							return err
						}
						e, cnt := sb.invoke(req, force, failing, crashAt{})
						invocations++
						d, err := sb.snapshot()
						if err != nil {
							return err
						}
						e.Dst = intern(d)
						add(e)
						if cnt > nev {
							nev = cnt
						}
						c := 0
						for _, r := range e.Ran {
							c += r.N
						}
						if c > ncmd {
							ncmd = c
						}
					}
					if !p.Crash {
						continue
					}
					var cps []crashAt
					for k := 1; k <= nev; k++ {
						cps = append(cps, crashAt{Kind: "event", K: k})
					}
					for j := 1; j <= ncmd; j++ {
						cps = append(cps, crashAt{Kind: "cmd", K: j})
					}
					for _, cp := range cps {
						for rep := 0; rep < p.Reps; rep++ {
							if err := sb.materialise(s); err != nil {
								return err
							}
							e, _ := sb.invoke(req, force, failing, cp)
							invocations++
							d, err := sb.snapshot()
							if err != nil {
								return err
							}
							e.Dst = intern(d)
							add(e)
						}
					}
				}
			}
		}
	}
	f, err := os.Create(*out)
	if err != nil {
		return err
	}
	defer f.Close()
	enc := json.NewEncoder(f)
	nedges := 0
	for _, n := range nodes {
		if n.Out == nil {
			n.Out = []edge{}
		}
		nedges += len(n.Out)
		if err := enc.Encode(n); err != nil {
			return err
		}
	}
	sum, _ := json.Marshal(map[string]any{"states": len(states), "edges": nedges, "invocations": invocations, "truncated": truncated})
	fmt.Println(string(sum))
	return nil
}

// ---- replay of one history from an empty project (confirmation of counterexamples, --replay) ----

type replayAct struct {
	Act     string   `json:"act"`
	F       string   `json:"f"`
	C       int      `json:"c"`
	K       int      `json:"k"`
	Req     []string `json:"req"`
	Force   bool     `json:"force"`
	Failing []string `json:"failing"`
	Crash   crashAt  `json:"crash"`
	Want    string   `json:"want"` // signature of (reports, ran, outcome) to look for among map-order repetitions
}

func obsSig(e *edge) string {
	b, _ := json.Marshal([]any{e.Reports, e.Ran, e.Outcome, e.ErrCls})
	return string(b)
}

func runReplay(args []string) error {
	fl := flag.NewFlagSet("run-replay", flag.ExitOnError)
	root := fl.String("root", "", "fresh sandbox directory")
	progPath := fl.String("program", "", "program.json")
	actsPath := fl.String("actions", "", "actions.json: one history (array of actions), or with --batch an array of histories")
	batch := fl.Bool("batch", false, "replay many histories; the output graph has a root node with one reset edge per history")
	out := fl.String("out", "", "graph.ndjson")
	fl.Parse(args)
	p, err := loadProgram(*progPath)
	if err != nil {
		return err
	}
	b, err := os.ReadFile(*actsPath)
	if err != nil {
		return err
	}
	var hists [][]replayAct
	if *batch {
		if err := json.Unmarshal(b, &hists); err != nil {
			return err
		}
	} else {
		var acts []replayAct
		if err := json.Unmarshal(b, &acts); err != nil {
			return err
		}
		hists = [][]replayAct{acts}
	}
	sb, err := newSandbox(*root, p)
	if err != nil {
		return err
	}
	var nodes []*node
	if *batch {
		nodes = append(nodes, &node{ID: 0, Fs: fsOf(p, initState(p)), Cache: "none", Out: []edge{}})
	}
	for _, acts := range hists {
		base := len(nodes)
		hn, err := replayOne(sb, p, acts, base)
		if err != nil {
			return err
		}
		if *batch {
			e := edge{Act: "reset", Dst: base}
			normEdge(&e)
			nodes[0].Out = append(nodes[0].Out, e)
		}
		nodes = append(nodes, hn...)
	}
	f, err := os.Create(*out)
	if err != nil {
		return err
	}
	defer f.Close()
	enc := json.NewEncoder(f)
	for _, n := range nodes {
		if err := enc.Encode(n); err != nil {
			return err
		}
	}
	return nil
}

func initState(p *program) *rstate {
	s := &rstate{files: map[string]int{}, other: map[string]string{}}
	for f, c := range p.Init {
		if c != absent {
			s.files[f] = c
		}
	}
	return s
}

// replayOne executes one history from the initial project state; node ids start at base.
func replayOne(sb *sandbox, p *program, acts []replayAct, base int) ([]*node, error) {
	s := initState(p)
	var nodes []*node
	var err error
	for i, a := range acts {
		n := &node{ID: base + i, Fs: fsOf(p, s), Cache: cacheInfo(s)}
		var e edge
		switch a.Act {
		case "edit":
			t := s.clone()
			if a.C == absent {
				delete(t.files, a.F)
			} else {
				t.files[a.F] = a.C
			}
			e = edge{Act: "edit", F: a.F, C: a.C}
			s = t
		case "rmcache":
			t := s.clone()
			t.other = map[string]string{}
			e = edge{Act: "rmcache"}
			s = t
		case "tear":
			t := s.clone()
			cb := t.other[cacheRel]
			if a.K <= -100 {
				// the remains of a kill inside an "atomic" cache write: an empty temporary (-101) or lock (-102) file next to the cache file
				if _, ok := t.other[cacheRel]; ok {
					t.other[cacheRel+map[int]string{-101: ".tmp", -102: ".lock"}[a.K]] = ""
				}
				e = edge{Act: "tear", K: a.K}
				s = t
				break
			}
			k := a.K
			if k > len(cb) {
				k = len(cb)
			}
			t.other[cacheRel] = cb[:k]
			e = edge{Act: "tear", K: a.K}
			s = t
		case "invoke":
			var d *rstate
			for try := 0; try < 60; try++ {
				if err := sb.materialise(s); err != nil {
					return nil, err
				}
				e, _ = sb.invoke(a.Req, a.Force, a.Failing, a.Crash)
				d, err = sb.snapshot()
				if err != nil {
					return nil, err
				}
				if a.Want == "" || obsSig(&e) == a.Want {
					break
				}
			}
			if a.Want != "" {
				if obsSig(&e) == a.Want {
					e.Pred = "match"
				} else {
					e.Pred = "mismatch"
				}
			}
			s = d
		default:
			return nil, fmt.Errorf("unknown action %q", a.Act)
		}
		e.Dst = base + i + 1
		normEdge(&e)
		n.Out = []edge{e}
		nodes = append(nodes, n)
	}
	nodes = append(nodes, &node{ID: base + len(acts), Fs: fsOf(p, s), Cache: cacheInfo(s), Out: []edge{}})
	return nodes, nil
}
