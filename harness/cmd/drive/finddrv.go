package main

import (
	"encoding/json"
	"flag"
	"fmt"
	"os"
	"path/filepath"
	"syscall"
	"time"

	"github.com/FollowTheProcess/spok/file"
)

// findScen: a chain of directories with their contents, a start and a stop directory (C17).
type findDir struct {
	Spok   string `json:"spok"` // none | file | dir
	Before bool   `json:"before"`
	After  bool   `json:"after"`
}

type findScen struct {
	ID     int       `json:"id"`
	Levels []findDir `json:"levels"` // L0 (outermost) .. Ld
	U      findDir   `json:"u"`      // unrelated directory next to the chain
	Start  int       `json:"start"`  // level, -1 = unrelated
	Stop   int       `json:"stop"`
	// spelling of the two paths handed to Find: clean (default) | slash | dotted | rel (relative to Cwd)
	StartSp string `json:"startSp"`
	StopSp  string `json:"stopSp"`
	Cwd     int    `json:"cwd"` // level of the working directory, -1 = unrelated, -2 = the file-system root; used when a spelling is rel
	// the chain runs THROUGH directories named spokfile: level l+1 is the directory `spokfile` of level l wherever level l's
	// entry of that name is a directory (so a start or stop directory can itself be called spokfile)
	Through bool `json:"through"`
	// the level the unrelated directory hangs off (-2: directly off the sandbox root, next to the chain)
	UA int `json:"ua"`
	// name of the unrelated directory relative to the chain directory it stands next to: "" = `u`; "pfx" = that sibling's name
	// plus a letter (the chain directory's path is a proper STRING prefix of the unrelated one's: proj / project); "short" = the
	// sibling's name minus its last letter (the other way round).  A walk that decides "above" by comparing spellings confuses them.
	UName string `json:"uname"`
}

type findRec struct {
	ID      int    `json:"id"`
	Outcome string `json:"outcome"` // found | notfound | panic
	Level   int    `json:"level"`
	Path    string `json:"path"`
	Err     string `json:"err"`
}

func init() { register("find", findMain) }

func findMain(args []string) error {
	fl := flag.NewFlagSet("find", flag.ExitOnError)
	root := fl.String("root", "", "sandbox root")
	in := fl.String("in", "-", "scenarios")
	out := fl.String("out", "-", "records")
	maxHang := fl.Int("maxhang", 6, "stop feeding scenarios after this many hangs (remaining ones are recorded as not-run)")
	fl.Parse(args)
	if isChild() {
		os.RemoveAll(*root)
		if err := os.MkdirAll(*root, 0o755); err != nil {
			return err
		}
		// nothing named spokfile may exist above the sandbox
		for d := filepath.Dir(*root); ; d = filepath.Dir(d) {
			if _, err := os.Lstat(filepath.Join(d, "spokfile")); err == nil {
				return fmt.Errorf("a spokfile exists above the sandbox in %s", d)
			}
			if d == filepath.Dir(d) {
				break
			}
		}
		return childLoop(func(line []byte) any { return findHandle(*root, line) })
	}
	scen, err := readLines(*in)
	if err != nil {
		return err
	}
	w := os.Stdout
	if *out != "-" {
		f, err := os.Create(*out)
		if err != nil {
			return err
		}
		defer f.Close()
		w = f
	}
	hangs := 0
	emit := func(i int, line []byte) {
		var m map[string]any
		if json.Unmarshal(line, &m) == nil {
			if m["outcome"] == "hang" {
				hangs++
			}
			if _, ok := m["id"]; !ok {
				var s findScen
				json.Unmarshal(scen[i], &s)
				m["id"] = s.ID
				m["level"] = -5
				line, _ = json.Marshal(m)
			}
		}
		w.Write(line)
		w.Write([]byte{'\n'})
	}
	// feed in slices so that a tree on which almost everything hangs does not take for ever
	for i := 0; i < len(scen); {
		if hangs >= *maxHang {
			for ; i < len(scen); i++ {
				var s findScen
				json.Unmarshal(scen[i], &s)
				b, _ := json.Marshal(map[string]any{"id": s.ID, "outcome": "not-run", "level": -5})
				w.Write(b)
				w.Write([]byte{'\n'})
			}
			break
		}
		j := i + 50
		if j > len(scen) {
			j = len(scen)
		}
		base := i
		if err := supervise([]string{"find", "--root", *root}, nil, "", scen[i:j], 5*time.Second, func(k int, line []byte) { emit(base+k, line) }); err != nil {
			return err
		}
		i = j
	}
	return nil
}

func populate(dir string, d findDir, inner bool, variant int) error {
	if err := os.MkdirAll(dir, 0o755); err != nil {
		return err
	}
	switch d.Spok {
	case "file":
		if err := os.WriteFile(filepath.Join(dir, "spokfile"), []byte("# found\n"), 0o644); err != nil {
			return err
		}
	case "dir":
		// an entry named spokfile that is NOT a regular file.  Where the chain does not have to run through it, it is in turn a
		// directory (holding a regular file of that name itself), a named pipe, a link to a directory, a dangling link
		if inner {
			switch variant % 4 {
			case 1:
				return syscall.Mkfifo(filepath.Join(dir, "spokfile"), 0o644)
			case 2:
				os.MkdirAll(filepath.Join(dir, "elsewhere.d"), 0o755)
				return os.Symlink("elsewhere.d", filepath.Join(dir, "spokfile"))
			case 3:
				return os.Symlink("no-such-target", filepath.Join(dir, "spokfile"))
			}
		}
		if err := os.MkdirAll(filepath.Join(dir, "spokfile"), 0o755); err != nil {
			return err
		}
		if inner {
			if err := os.WriteFile(filepath.Join(dir, "spokfile", "spokfile"), []byte("# inside\n"), 0o644); err != nil {
				return err
			}
		}
	}
	// other entries, among them near misses of the name: sorting before (`Spokfile`, `spokfil`) and after (`spokfile.bak`, `spokfile.d/`)
	if d.Before {
		for _, n := range []string{"a-before", "Spokfile", "spokfil"} {
			if err := os.WriteFile(filepath.Join(dir, n), []byte("x"), 0o644); err != nil {
				return err
			}
		}
	}
	if d.After {
		for _, n := range []string{"z-after", "spokfile.bak"} {
			if err := os.WriteFile(filepath.Join(dir, n), []byte("x"), 0o644); err != nil {
				return err
			}
		}
		if err := os.MkdirAll(filepath.Join(dir, "spokfile.d"), 0o755); err != nil {
			return err
		}
	}
	return nil
}

// spell returns another spelling of the directory p (Find.tla: Spellings).
func spell(p, sp, cwd string) string {
	switch sp {
	case "slash":
		return p + "/"
	case "dotted":
		return filepath.Dir(p) + "/./" + filepath.Base(p) + "/../" + filepath.Base(p)
	case "rel":
		if r, err := filepath.Rel(cwd, p); err == nil {
			return r
		}
	}
	return p
}

func findHandle(root string, line []byte) any {
	var s findScen
	if err := json.Unmarshal(line, &s); err != nil {
		return map[string]any{"outcome": "driver-error", "err": err.Error()}
	}
	os.Chdir("/")
	os.RemoveAll(filepath.Join(root, "c"))
	os.RemoveAll(filepath.Join(root, "u"))
	os.RemoveAll(filepath.Join(root, "cx"))
	paths := map[int]string{-2: "/"}
	p := filepath.Join(root, "c")
	for l, d := range s.Levels {
		name := fmt.Sprintf("L%d", l)
		if s.Through && l > 0 && s.Levels[l-1].Spok == "dir" {
			name = "spokfile"
		}
		p = filepath.Join(p, name)
		paths[l] = p
		// the file inside a directory named spokfile is the next level's own business when the chain runs through it
		inner := !(s.Through && l+1 < len(s.Levels))
		if err := populate(p, d, inner, s.ID+l); err != nil {
			return map[string]any{"id": s.ID, "outcome": "driver-error", "err": err.Error()}
		}
	}
	// the unrelated directory: next to the chain, or inside one of its levels
	uparent, sibling := root, "c"
	if s.UA >= 0 && s.UA < len(s.Levels) {
		uparent, sibling = paths[s.UA], ""
		if s.UA+1 < len(s.Levels) {
			sibling = filepath.Base(paths[s.UA+1])
		}
	}
	uname := "u"
	switch {
	case s.UName == "pfx" && sibling != "":
		uname = sibling + "x"
	case s.UName == "short" && len(sibling) > 1:
		uname = sibling[:len(sibling)-1]
	}
	paths[-1] = filepath.Join(uparent, uname)
	if err := populate(paths[-1], s.U, true, s.ID+7); err != nil {
		return map[string]any{"id": s.ID, "outcome": "driver-error", "err": err.Error()}
	}
	rec := findRec{ID: s.ID, Level: -5}
	func() {
		defer func() {
			if r := recover(); r != nil {
				rec.Outcome, rec.Err = "panic", fmt.Sprint(r)
			}
		}()
		startP, stopP := paths[s.Start], paths[s.Stop]
		if s.StartSp == "rel" || s.StopSp == "rel" {
			if cerr := os.Chdir(paths[s.Cwd]); cerr != nil {
				rec.Outcome, rec.Err = "driver-error", cerr.Error()
				return
			}
		}
		startP, stopP = spell(startP, s.StartSp, paths[s.Cwd]), spell(stopP, s.StopSp, paths[s.Cwd])
		got, err := file.Find(nopLogger{}, startP, stopP)
		if err != nil {
			rec.Outcome, rec.Err = "notfound", err.Error()
			return
		}
		rec.Outcome, rec.Path = "found", got
		for l, dp := range paths {
			if got == filepath.Join(dp, "spokfile") {
				if fi, serr := os.Lstat(got); serr == nil && fi.Mode().IsRegular() {
					rec.Level = l
				}
			}
		}
	}()
	return rec
}
